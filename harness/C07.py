"""C07 - Application data cannot inject header lines or split a response.

Engine B (z3 regex obligations on the LIVE patterns, strings of every length): the accepted language
of every sanitiser excludes CR, LF and NUL - RequestHandler._VALID_HEADER_CHARS (set_header /
add_header / redirect values), _ABNF.reason_phrase (set_status), _ABNF.field_name (add_header names),
the two inline patterns of set_cookie (pulled from the live source with ast), and CR_OR_LF_RE finds
every CR / LF (write_headers last-line guard).
Engine A (CrossHair): the real RequestHandler.set_header / add_header / set_status / redirect /
set_cookie -> flush -> real HTTP1Connection.write_headers -> FakeStream; one application string in one
argument position; either the call raises or the wire holds exactly the expected number of lines, none
with CR/LF/NUL, and an accepted header *name* is an RFC 9110 token.  Positions 11..14 answer through the low-level
API instead: request.connection.write_headers(ResponseStartLine(version, code, reason), headers) with the application
string as reason, as a value/name stored with headers[name] = value (unvalidated) or as a value given to headers.add.
"""
from typing import List

from vp.api import P, harness, in_shard, reached
from vp.env import install
from vp.fakestream import FakeStream

from tornado import http1connection, httputil, web
from tornado.httputil import HTTPHeaders

TCHARS = "!#$%&'*+-.^_`|~0123456789abcdefghijklmnopqrstuvwxyzABCDEFGHIJKLMNOPQRSTUVWXYZ"


class FixedTime:
    """time module stand-in for tornado.web/httputil (CrossHair models time.time() as a fresh symbolic
    float per call, which makes the Date header explode)."""

    def time(self):
        return 1600000000

    def __getattr__(self, k):
        import time as _t
        return getattr(_t, k)


# one representative per character class of the validators (Engine B proves the classes for all strings)
ALPH = ["x", "\r", "\n", "\0", " ", "\t", ":", ";", "<", "=", "\x7f", "\x80", "\xff", "Ā", "\x1f", ",", "/", "\x0b"]
NAPI = 15      # 0..10 RequestHandler APIs, 11..14 direct HTTPConnection.write_headers positions


def make_handler(env):
    stream = FakeStream(env.loop)
    conn = http1connection.HTTP1Connection(stream, False, http1connection.HTTP1ConnectionParameters(), None)
    conn._request_start_line = httputil.RequestStartLine("GET", "/", "HTTP/1.1")
    conn._request_headers = HTTPHeaders()
    req = httputil.HTTPServerRequest(method="GET", uri="/", version="HTTP/1.1", headers=HTTPHeaders({"Host": "h"}),
                                     connection=conn, start_line=conn._request_start_line)
    app = web.Application([])
    h = web.RequestHandler(app, req)
    h._transforms = []           # what _execute() installs for an application without transforms
    return h, stream


def call_api(h, api, s):
    """returns the number of header lines the call is meant to add"""
    if api == 0:
        h.set_header(s, "v")
        return 1
    if api == 1:
        h.set_header("X-A", s)
        return 1
    if api == 2:
        h.add_header(s, "v")
        return 1
    if api == 3:
        h.add_header("X-A", s)
        return 1
    if api == 4:
        h.set_status(200, reason=s)
        return 0
    if api == 5:
        h.redirect(s)            # finishes the request itself
        return 1
    if api == 6:
        h.set_cookie(s, "v")
        return 1
    if api == 7:
        h.set_cookie("n", s)
        return 1
    if api == 8:
        h.set_cookie("n", "v", domain=s)
        return 1
    if api == 9:
        h.set_cookie("n", "v", path=s)
        return 1
    h.set_cookie("n", "v", samesite=s)
    return 1


def baseline_lines():
    with install() as env:
        h, stream = make_handler(env)
        h.flush()
        env.run_ready()
        return stream.wire().split(b"\r\n\r\n")[0].count(b"\r\n") + 1


def is_token(s):
    return len(s) > 0 and all(c in TCHARS for c in s)


def pre_e2e(api: int, asbytes: bool, cs: List[int]) -> bool:
    if not (0 <= api < NAPI and 1 <= len(cs) <= P.L):
        return False
    for c in cs:
        if not 0 <= c < len(ALPH):
            return False
    if asbytes and api not in (1, 3, 7):
        return False
    return in_shard(api)


def classify_e2e(api, asbytes, cs):
    s = "".join(ALPH[c] for c in cs)
    if api == 0 and not is_token(s):
        return "set_header_name_unvalidated"
    if 11 <= api <= 13 and "\0" in s and "\r" not in s and "\n" not in s:
        return "direct_write_headers_nul"
    return None


@harness(
    pre=pre_e2e,
    quick=dict(L=2, timeout=200, reach_timeout=90), thorough=dict(L=3, timeout=1200, reach_timeout=120),
    nshards=NAPI, reach=["rejected", "on_wire", "direct_rejected", "direct_on_wire"], classify=classify_e2e,
    units=["web.RequestHandler.set_header", "web.RequestHandler.add_header", "web.RequestHandler.set_status",
           "web.RequestHandler.redirect", "web.RequestHandler.set_cookie", "web.RequestHandler._convert_header_value",
           "web.RequestHandler.flush", "http1connection.HTTP1Connection.write_headers",
           "httputil.HTTPHeaders.add", "httputil.HTTPHeaders.__setitem__",
           "http1connection.HTTP1Connection.write_headers driven directly (api 11..14: reason / value via "
           "headers[name]=value / name / value via headers.add)"],
    stubs=["FakeStream (vp/fakestream.py) captures stream.write; VLoop/FakeAio virtual loop",
           "handler built over a real HTTP1Connection whose request line/headers are preset (no request read)",
           "time module of tornado.web/httputil replaced by a fixed clock (Date header)",
           "the application string is built from symbolic indices into 18 character-class representatives "
           "(\"%\"-formatting of the status line / error texts realises symbolic strings); Engine B extras prove "
           "each validator's character classes for all strings"],
    outside=["strings longer than L characters or using other representatives in Engine A",
             "http.cookies quoting rules are exercised, not re-proved", "clear_cookie / expires / max_age arguments",
             "response bodies and transforms (C02/C29)"],
)
def h_e2e(api: int, asbytes: bool, cs: List[int]):
    s = "".join(ALPH[c] for c in cs)
    if classify_e2e(api, asbytes, cs) in P.exclude:
        return
    web.time = httputil.time = FixedTime()
    if api >= 11:
        _direct(api, s)
        return
    with install() as env:
        h, stream = make_handler(env)
        arg = s
        if asbytes:
            try:
                arg = s.encode("latin1")
            except UnicodeEncodeError:
                return
        try:
            added = call_api(h, api, arg)
            if api != 5:
                h.flush()
            env.run_ready()
            exc = None
        except Exception as e:      # rejected with an exception (ValueError, HTTPInputError, CookieError, UnicodeEncodeError...)
            exc = e
        wire = stream.wire()
        if exc is not None:
            reached("rejected")
            assert b"\0" not in wire and wire.count(b"\r\n\r\n") <= 1
            return
        reached("on_wire")
        assert wire.endswith(b"\r\n\r\n") and wire.count(b"\r\n\r\n") == 1, "header block is split / body injected"
        block = wire[:-4]
        lines = block.split(b"\r\n")
        for ln in lines:
            assert b"\r" not in ln and b"\n" not in ln and b"\0" not in ln, "CR/LF/NUL reached the wire: %r" % ln
        # exactly the intended lines: status line + framework lines + the one the application asked for
        want = BASELINE[0] + added + (0 if api != 5 else 0)
        if api == 5:
            # redirect() finishes the request: Content-Length replaces Transfer-Encoding (same count)
            pass
        assert len(lines) == want, "expected %d lines, got %d: %r" % (want, len(lines), lines)
        assert lines[0].startswith(b"HTTP/1.1 ") and lines[0][9:12].isdigit()
        for ln in lines[1:]:
            name = ln.split(b":", 1)[0].decode("latin1")
            assert b":" in ln and is_token(name), "header line with a non-token field name on the wire: %r" % ln
        if api in (0, 2):
            assert is_token(s), "a header name that is not an RFC 9110 token was accepted: %r" % s
            assert lines.count((httputil._normalize_header(s) + ": v").encode("latin1")) == 1


def direct_call(env, api, s):
    """An application answering through the low-level API: request.connection.write_headers(start_line, headers).
    Returns (wire, exception, intended status line, intended header line)."""
    h, stream = make_handler(env)
    reason, name, value = "OK", "X-A", "v"
    headers = HTTPHeaders()
    exc = None
    try:
        if api == 11:
            reason = s
            headers[name] = value
        elif api == 12:
            value = s
            headers[name] = value              # __setitem__: HTTPHeaders does not validate
        elif api == 13:
            name = s
            headers[name] = value
        else:
            value = s
            headers.add(name, value)           # validated path
        h.request.connection.write_headers(httputil.ResponseStartLine("HTTP/1.1", 200, reason), headers)
        env.run_ready()
    except Exception as e:
        exc = e
    return stream.wire(), exc, "HTTP/1.1 200 " + reason, httputil._normalize_header(name) + ": " + value


def _direct(api, s):
    with install() as env:
        wire, exc, status, hline = direct_call(env, api, s)
        if exc is not None:
            reached("direct_rejected")
            assert wire == b"", "a rejected write_headers call still wrote %r" % wire
            return
        reached("direct_on_wire")
        assert wire.endswith(b"\r\n\r\n") and wire.count(b"\r\n\r\n") == 1, "header block is split / body injected"
        lines = wire[:-4].split(b"\r\n")
        for ln in lines:
            assert b"\r" not in ln and b"\n" not in ln and b"\0" not in ln, \
                "CR/LF/NUL supplied through write_headers reached the wire: %r" % ln
        assert len(lines) == DIRECT_BASE[0], "expected %d lines, got %r" % (DIRECT_BASE[0], lines)
        assert lines[0] == status.encode("utf-8"), "status line is not the intended one: %r" % lines[0]
        assert lines.count(hline.encode("latin1")) == 1, "intended header line %r not on the wire exactly once: %r" % (hline, lines)


BASELINE = []
DIRECT_BASE = []


def _init_baseline():
    web.time = httputil.time = FixedTime()
    BASELINE.append(baseline_lines())
    with install() as env:
        wire, exc, _st, _hl = direct_call(env, 12, "v")
        assert exc is None
        DIRECT_BASE.append(wire[:-4].count(b"\r\n") + 1)      # status line, X-A, Transfer-Encoding


_init_baseline()


# ------------------------------------------------------------------------------ Engine B extras
def x_sanitisers(tier, seed):
    import z3
    from engines import rxsmt as rx
    S = rx.harvest(300)
    A = httputil._ABNF
    inl = rx.inline_patterns(web.RequestHandler.set_cookie)
    if len(inl) < 2 or not all(k == "search" for _p, k in inl):
        return dict(status="ERROR", message="set_cookie inline patterns not found as expected: %r" % (inl,))
    import re
    cookie_pats = [re.compile(p) for p, _k in inl]
    pats = [(web.RequestHandler._VALID_HEADER_CHARS, "fullmatch"), (A.reason_phrase, "fullmatch"),
            (A.field_name, "fullmatch"), (A.field_value, "fullmatch"), (http1connection.CR_OR_LF_RE, "search"),
            (httputil._FORBIDDEN_HEADER_CHARS_RE, "search")] + [(c, "search") for c in cookie_pats]
    vals = [rx.validate(p, S, mode=m) for p, m in pats]
    if not all(v["ok"] for v in vals):
        return dict(status="ERROR", message="translator validation failed: %r" % vals)
    bad = "\r\n\0"
    anyb = rx.BYTES
    has_crlf = z3.Concat(rx.anystr(), rx.chars("\r\n"), rx.anystr())
    checks = [
        ("_VALID_HEADER_CHARS excludes CR LF NUL",
         lambda: rx.excludes_chars(rx.to_z3(web.RequestHandler._VALID_HEADER_CHARS), bad)),
        ("_ABNF.reason_phrase excludes CR LF NUL", lambda: rx.excludes_chars(rx.to_z3(A.reason_phrase), bad)),
        ("_ABNF.field_name excludes CR LF NUL SP and ':'", lambda: rx.excludes_chars(rx.to_z3(A.field_name), bad + " :")),
        ("_ABNF.field_value excludes CR LF NUL", lambda: rx.excludes_chars(rx.to_z3(A.field_value), bad)),
        ("CR_OR_LF_RE.search finds every CR/LF (bytes)",
         lambda: rx.included(has_crlf, rx.to_z3(http1connection.CR_OR_LF_RE, mode="search"), universe=anyb)),
        ("write_headers_guard: the pattern applied to every line of the head (CR_OR_LF_RE.search) finds every CR, LF and "
         "NUL (bytes) - the only filter for data given to write_headers directly",
         lambda: rx.included(z3.Concat(rx.anystr(), rx.chars("\r\n\0"), rx.anystr()),
                             rx.to_z3(http1connection.CR_OR_LF_RE, mode="search"), universe=anyb)),
        ("_FORBIDDEN_HEADER_CHARS_RE.search finds every LF and NUL (multipart header values)",
         lambda: rx.included(z3.Concat(rx.anystr(), rx.chars("\n\0"), rx.anystr()),
                             rx.to_z3(httputil._FORBIDDEN_HEADER_CHARS_RE, mode="search"))),
    ]
    for c in cookie_pats:
        R = rx.to_z3(c, mode="search")
        checks.append(("set_cookie pattern %r: every string it lets through is free of CR LF NUL" % c.pattern,
                       (lambda R=R: rx.excludes_chars(z3.Complement(R), bad))))
    checks.append(("set_cookie attribute pattern also stops ';'",
                   lambda: rx.excludes_chars(z3.Complement(rx.to_z3(cookie_pats[-1], mode="search")), ";")))
    obl = dis = q = 0
    secs, samples, viol, status = 0.0, [], [], "PROVED"
    for title, run in checks:
        obl += 1
        verdict, w, t = run()
        q += 1
        secs += t
        samples.append(dict(obligation=title, verdict=verdict, witness=w, solver_s=t))
        if verdict == "unsat":
            dis += 1
        elif verdict == "sat":
            key = "C07-" + title.split()[0]
            if title.startswith("write_headers_guard"):
                # replay the witness on the real pattern before reporting
                wb = w.encode("latin-1")
                if http1connection.CR_OR_LF_RE.search(wb) is not None or not any(c in wb for c in b"\r\n\0"):
                    status = "ERROR"
                    continue
                key = "direct_write_headers_nul"
            status = "VIOLATION" if status != "ERROR" else status
            viol.append(dict(detail=title + ": witness passes the sanitiser", input=repr(w), finding_key=key))
        elif status == "PROVED":
            status = "BOUNDED"
    return dict(status=status, obligations=obl, discharged=dis, queries=q, solver_s=round(secs, 2),
                samples=samples + [dict(validate=v) for v in vals], violations=viol,
                trusted_base=["z3 %s seq/re theory" % z3.get_version_string(),
                              "engines/rxsmt.py translator (validated on this run against the re module on %d "
                              "strings)" % sum(v["checked"] for v in vals), "re._parser.parse (CPython)"],
                assumptions=["code points above 0x2FFFF are outside z3's character sort",
                             "that each sanitiser is actually applied on every path is decided by h_e2e, not here"])


EXTRAS = {"x_sanitisers": dict(fn=x_sanitisers, wall=400)}
TECHNIQUE = "z3 regular-language obligations on the live sanitiser patterns + CrossHair end-to-end through the real handler"
