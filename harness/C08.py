"""C08 - The HTTP client decodes any response stream exactly as a strict parser does.

Harnesses (all drive the real code; Engine-B status-line equivalence belongs to another module)
  h_client_framing   HTTP1Connection(is_client=True)._read_message/_read_body/_read_fixed_body/
                     _read_chunked_body/_read_body_until_close over FakeStream: symbolic status code, HEAD/GET,
                     symbolic Content-Length / Transfer-Encoding VALUES (real HTTPHeaders.add), symbolic number
                     of body bytes before EOF, symbolic max_body_size, optional 1xx interim response.
                     Oracle: RFC 9112 6.3 strict reader + "delivered body never exceeds max_body_size".
  h_gzip_limit       _GzipMessageDelegate.data_received/finish with a pure-Python decompressor shim whose
                     expansion is symbolic: delivered bytes <= max_body_size or HTTPInputError; truncated
                     stream => error at finish.
  h_response_assembly  simple_httpclient._HTTPConnection.headers_received/data_received/finish assembling the
                     HTTPResponse with / without streaming_callback from symbolic chunk sizes.
"""
from typing import List, Optional, Tuple

from vp.api import P, harness, in_shard, reached
from vp.env import install
from vp.fakestream import FakeStream

from tornado import httputil, http1connection
from tornado.http1connection import HTTP1Connection, HTTP1ConnectionParameters, _GzipMessageDelegate
from tornado.httpclient import HTTPRequest, _RequestProxy
from tornado.simple_httpclient import _HTTPConnection

BODY = b"abcdefgh"
CHUNKED = b"1\r\na\r\n1\r\nb\r\n0\r\n\r\n"      # decodes to b"ab" (two chunks); complete only if fully received
CHUNKED_BODY = b"ab"
_CL_ALPHABET = "0123456789, +-x\t"
_TE_POOL = ("chunked", "Chunked", "CHUNKED", "gzip", "chunked, gzip", "gzip, chunked", " chunked", "identity", "")


class _HdrStream(FakeStream):
    """FakeStream whose header blocks are handed over pre-delimited and pre-parsed (stub): the harness
    injects (start_line, HTTPHeaders) pairs through HTTP1Connection._parse_headers; read_until_regex
    only signals 'a header block arrived' (or EOF when none is left)."""

    def __init__(self, *a, **kw):
        super().__init__(*a, **kw)
        self.blocks = []

    def read_until_regex(self, regex, max_bytes=None):
        from tornado.concurrent import Future
        from tornado.iostream import StreamClosedError
        f = Future()
        if self._closed or not self.blocks:
            self.close()
            f.set_exception(StreamClosedError())
            f.exception()
        else:
            f.set_result(b"<header block>")
        return f


class _Rec(httputil.HTTPMessageDelegate):
    def __init__(self):
        self.events = []         # ("h", code) / ("d", bytes) / ("f",) / ("c",)

    def headers_received(self, start_line, headers):
        self.events.append(("h", start_line.code))

    def data_received(self, chunk):
        self.events.append(("d", bytes(chunk)))

    def finish(self):
        self.events.append(("f",))

    def on_connection_close(self):
        self.events.append(("c",))


def _digits(s):
    return len(s) > 0 and all(c in "0123456789" for c in s)


def pre_fr(code: int, head: bool, cl: Optional[str], ti: int, nb: int, maxb: int, interim: int) -> bool:
    if not (200 <= code <= 599 and 0 <= nb <= P.NB and 0 <= maxb <= P.MB and 0 <= interim <= 2):
        return False
    if cl is not None:
        if len(cl) > P.LCL:
            return False
        for ch in cl:
            # alphabet of the Content-Length value: tornado's error messages format the value with %s, which
            # realises it; an unrestricted code point would be enumerated value by value
            if ch not in _CL_ALPHABET:
                return False
    if not 0 <= ti <= len(_TE_POOL):
        return False
    return in_shard((0 if cl is None else 1 + len(cl)) + (P.LCL + 2) * ((0 if ti == 0 else 1) + 2 * interim))


@harness(
    pre=pre_fr,
    quick=dict(NB=2, MB=2, LCL=1, timeout=330, reach_timeout=90),
    thorough=dict(NB=3, MB=3, LCL=3, timeout=1500, reach_timeout=120),
    nshards=dict(quick=18, thorough=30),
    reach=["fixed_body_ok", "chunked_ok", "until_close_ok", "no_body_status", "rejected_framing", "truncated",
           "after_interim"],
    units=["http1connection.HTTP1Connection._read_message", "http1connection.HTTP1Connection._read_body",
           "http1connection.HTTP1Connection._read_fixed_body", "http1connection.HTTP1Connection._read_chunked_body",
           "http1connection.HTTP1Connection._read_body_until_close", "http1connection.is_transfer_encoding_chunked",
           "http1connection.parse_int", "httputil.parse_response_start_line", "httputil.HTTPHeaders.add"],
    stubs=["VLoop/FakeAio (vp/env.py), FakeStream (vp/fakestream.py: read contracts of C11)",
           "header blocks are handed over pre-delimited and pre-parsed: _parse_headers is replaced by a feeder that "
           "returns an already parsed ResponseStartLine(code symbolic int 200..599; a final 1xx would only realise the code through the %d error message) (parse_response_start_line is "
           "bypassed: status-line grammar is the Engine-B obligation) and an HTTPHeaders built with the real add() "
           "from the symbolic Content-Length / Transfer-Encoding values (header-block parsing itself: C01/C06)",
           "interim = 0: none, "
           "1: '100 Continue' first, 2: a 100 that (illegally) carries Content-Length",
           "body bytes on the wire are a concrete prefix of b'abcdefgh' of symbolic length nb (or a fixed chunked "
           "encoding of b'ab' (two 1-byte chunks) with the last nb bytes missing), followed by EOF"],
    outside=["segmentation (composition with C11 through FakeStream's contract)", "chunk-size syntax (C01-4 twin)",
             "Content-Length values longer than LCL chars, Transfer-Encoding spellings outside the pool (the case-insensitive comparison on a free 7-char string costs 0.5 s/solver query)", "TLS / real sockets"],
)
def h_client_framing(code: int, head: bool, cl: Optional[str], ti: int, nb: int, maxb: int, interim: int):
    _run_framing(code, head, [] if cl is None else [cl], False, ti, nb, maxb, interim)


def _run_framing(code, head, clvals, joined, ti, nb, maxb, interim):
    """Shared body of h_client_framing / h_client_framing3.  clvals = Content-Length field values, added on
    separate header lines through the real HTTPHeaders.add, or (joined) as one comma-separated field."""
    cl = None if not clvals else ",".join(clvals)      # what a reader sees: the combined field value
    with install() as env:
        te = None if ti == 0 else _TE_POOL[ti - 1]      # Transfer-Encoding value by symbolic index (0 = absent)
        chunked_wire = te is not None and te.lower() == "chunked"
        wire = (CHUNKED if chunked_wire else BODY)
        # nb = body bytes before EOF; for the chunked wire form nb counts the bytes MISSING at the end
        cut = (len(wire) - nb) if chunked_wire else nb
        stream = _HdrStream(env.loop, incoming=wire[:cut], eof=True)
        params = HTTP1ConnectionParameters(no_keep_alive=True, max_body_size=maxb)
        conn = HTTP1Connection(stream, True, params)
        conn._request_start_line = httputil.RequestStartLine("HEAD" if head else "GET", "/", "HTTP/1.1")
        conn._write_finished = True
        conn._finish_future.set_result(None)
        # ---- header feeder
        if interim:
            ih = httputil.HTTPHeaders()
            if interim == 2:
                ih.add("Content-Length", "0")
            stream.blocks.append((httputil.ResponseStartLine("HTTP/1.1", 100, "Continue"), ih))
        fh = httputil.HTTPHeaders()
        try:
            if joined:
                fh.add("Content-Length", ", ".join(clvals))
            else:
                for v in clvals:
                    fh.add("Content-Length", v)
            if te is not None:
                fh.add("Transfer-Encoding", te)
        except httputil.HTTPInputError:
            return                      # not a header value (CR/LF/NUL...): cannot appear in a parsed block
        # the status code stays a solver variable: the start line is handed over already parsed
        stream.blocks.append((httputil.ResponseStartLine("HTTP/1.1", code, "X"), fh))
        conn._parse_headers = lambda data: stream.blocks.pop(0)
        rec = _Rec()
        saved_parse = httputil.parse_response_start_line
        httputil.parse_response_start_line = lambda line: line
        try:
            task = env.spawn(conn.read_response(rec))
            env.run_ready()
        finally:
            httputil.parse_response_start_line = saved_parse
        assert task.done(), "read_response did not finish on a closed stream"
        exc = task.exception()
        ok = (exc is None) and task.result() is True
        # ---- strict reader (RFC 9112 6.3) on the same input
        if interim == 2 or code < 200:
            want = None                 # 1xx must not carry content / no final response follows the 1xx
        elif head or code == 304:
            want = b""
        elif te is not None:
            if cl is not None or not chunked_wire:
                want = None             # TE + CL, or a coding this reader does not implement
            elif code == 204:
                want = None
            else:
                want = CHUNKED_BODY if nb == 0 else None     # truncated chunked stream
                if want is None:
                    reached("truncated")
        elif cl is not None:
            # RFC 9112 6.3 rule 5: every list element (over all field lines) must be the same 1*DIGIT
            pieces = [p.strip(" \t") for p in cl.split(",")]
            if len(pieces) >= 3:
                reached("three_or_more_lengths")
            if not all(_digits(p) and p == pieces[0] for p in pieces):
                want = None
                if len(pieces) >= 3 and _digits(pieces[0]) and pieces[0] == pieces[-1]:
                    reached("middle_differs_rejected")
            else:
                n = int(pieces[0])
                if code == 204:
                    want = b"" if n == 0 else None
                elif n > maxb:
                    want = None
                elif n > nb:
                    want = None
                    reached("truncated")
                else:
                    want = BODY[:n]
        elif code == 204:
            want = b""
        else:
            want = BODY[:nb]            # close-delimited
        got = b"".join(e[1] for e in rec.events if e[0] == "d")
        if want is not None and cl is not None and te is None and not (head or code == 304) \
                and any(p != p.rstrip(" \t") for p in cl.split(",")):
            # OWS *before* a comma / at the end of the value: RFC 9110 5.6.1 lets a recipient accept it, a strict
            # reader may refuse it - either outcome is within the statement; only the limit is checked
            assert len(got) <= maxb
            return
        # ---- the limit holds in every case
        assert len(got) <= maxb, "delivered %d body bytes with max_body_size=%d" % (len(got), maxb)
        if want is None:
            reached("rejected_framing")
            assert not ok and ("f",) not in rec.events, \
                "strict reader rejects this response but the client finished it: events=%r" % (rec.events,)
            return
        if len(want) > maxb:
            assert not ok and ("f",) not in rec.events, "body larger than max_body_size accepted"
            return
        assert ok, "valid response rejected: %r / events %r" % (exc, rec.events)
        finals = [e for e in rec.events if e[0] == "h" and e[1] >= 200]
        assert len(finals) == 1 and finals[0][1] == code, "final status delivered %r" % (rec.events,)
        assert got == want, "body %r, strict reader extracts %r" % (got, want)
        assert rec.events.count(("f",)) == 1, "finish delivered %d times: %r" % (rec.events.count(("f",)), rec.events)
        assert rec.events[-1] == ("f",), "events after finish: %r" % (rec.events,)
        if interim:
            reached("after_interim")
        if head or code in (204, 304):
            reached("no_body_status")
        elif te is not None:
            reached("chunked_ok")
        elif cl is not None:
            reached("fixed_body_ok")
        else:
            reached("until_close_ok")


_CL3_POOL = ("0", "1", "2", "x", "", ",")     # one Content-Length value (<= 1 char), chosen by symbolic index


def pre_fr3(code: int, c1: int, c2: int, c3: int, joined: bool, nb: int, maxb: int) -> bool:
    n = len(_CL3_POOL)
    if not (0 <= c3 <= n and in_shard(c3) and 0 <= c1 < n and 0 <= c2 <= n):
        return False
    if c2 == 0 and c3 == 0:
        return False                 # single value: h_client_framing
    return 200 <= code <= 599 and 0 <= nb <= P.NB and 0 <= maxb <= P.MB


@harness(
    pre=pre_fr3,
    quick=dict(NB=2, MB=2, timeout=300, reach_timeout=120),
    thorough=dict(NB=3, MB=3, timeout=1500, reach_timeout=200),
    nshards=dict(quick=7, thorough=7),
    reach=["three_or_more_lengths", "middle_differs_rejected", "fixed_body_ok"],
    units=["http1connection.HTTP1Connection._read_message", "http1connection.HTTP1Connection._read_body",
           "http1connection.HTTP1Connection._read_fixed_body", "http1connection.parse_int",
           "httputil.HTTPHeaders.add", "httputil.HTTPHeaders.__getitem__"],
    stubs=["as h_client_framing (pre-parsed header blocks, FakeStream, concrete body prefix)",
           "two or three Content-Length values v1, v2?, v3? - each chosen by symbolic index from the pool "
           "('0','1','2','x','',','), v2/v3 optional - either on separate header lines (real HTTPHeaders.add per "
           "value) or joined into one field with ', '; status code, bytes before EOF and max_body_size symbolic; "
           "GET request, no Transfer-Encoding, no interim response (those dimensions: h_client_framing). "
           "(Free symbolic 1-char strings cost 0.85 s/path here because tornado's '%r' error message realises them.)"],
    outside=["more than three field lines (a ',' value yields up to 4 list elements)", "digits above 2 (bodies are "
             "at most NB bytes)", "values longer than one character in this harness"],
)
def h_client_framing3(code: int, c1: int, c2: int, c3: int, joined: bool, nb: int, maxb: int):
    vals = [_CL3_POOL[c1]]
    if c2 != 0:
        vals.append(_CL3_POOL[c2 - 1])
    if c3 != 0:
        vals.append(_CL3_POOL[c3 - 1])
    _run_framing(code, False, vals, joined, 0, nb, maxb, 0)


# =================================================================================================
# gzip delegate with a pure-Python decompressor shim
# =================================================================================================

class _ExpShim:
    """Pure-Python stand-in for tornado.util.GzipDecompressor (zlib is C).  Model: the compressed stream is a sequence of bytes, each of which
    decodes to `exp` plain bytes.  decompress(value, max_length) consumes whole input bytes while their
    output fits into max_length, returns the output, and leaves the rest of `value` in unconsumed_tail
    (this is what zlib.decompressobj.decompress does at byte granularity).  If exp > max_length no progress
    is possible (the delegate must then fail with HTTPInputError rather than spin).  flush() raises on a truncated stream (fewer than `total` bytes consumed)."""

    def __init__(self, exp, total):
        self.exp, self.total, self.consumed = exp, total, 0
        self.unconsumed_tail = b""

    def decompress(self, value, max_length=0):
        out, i = 0, 0
        while i < len(value) and (max_length == 0 or out + self.exp <= max_length):
            out += self.exp
            i += 1
        self.consumed += i
        self.unconsumed_tail = bytes(value[i:])
        return b"x" * out

    def flush(self):
        if self.consumed < self.total:
            raise ValueError("incomplete or truncated stream")
        return b""


def pre_gz(exp: int, sizes: List[int], total: int, maxb: int, chunk_size: int) -> bool:
    if not (0 <= exp <= P.E and len(sizes) <= P.K and 0 <= maxb <= P.MB and 1 <= chunk_size <= 3):
        return False
    for s in sizes:
        if not 1 <= s <= 3:
            return False
    return 0 <= total <= 9


@harness(
    pre=pre_gz,
    quick=dict(E=3, K=3, MB=6, timeout=150, reach_timeout=60),
    thorough=dict(E=4, K=4, MB=9, timeout=900, reach_timeout=60),
    nshards=1,
    reach=["gzip_within_limit", "gzip_over_limit_rejected", "gzip_truncated_rejected", "gzip_no_progress"],
    units=["http1connection._GzipMessageDelegate.headers_received", "http1connection._GzipMessageDelegate.data_received",
           "http1connection._GzipMessageDelegate.finish"],
    stubs=["tornado.util.GzipDecompressor replaced by _ExpShim (pure Python; real zlib is C): every compressed byte "
           "decodes to `exp` plain bytes, whole input bytes are consumed while their output fits max_length, the "
           "rest is left in unconsumed_tail; flush() raises on a truncated stream",
           "compressed chunks: symbolic sizes 1..3, up to K chunks; `total` = length of the complete compressed "
           "stream (fewer bytes delivered = truncated)"],
    outside=["real zlib/gzip bit streams", "expansion factors above E"],
)
def h_gzip_limit(exp: int, sizes: List[int], total: int, maxb: int, chunk_size: int):
    with install() as env:
        rec = _Rec()
        d = _GzipMessageDelegate(rec, chunk_size, maxb)
        saved = http1connection.GzipDecompressor
        http1connection.GzipDecompressor = lambda: _ExpShim(exp, total)
        try:
            h = httputil.HTTPHeaders()
            h.add("Content-Encoding", "gzip")
            d.headers_received(httputil.ResponseStartLine("HTTP/1.1", 200, "OK"), h)
        finally:
            http1connection.GzipDecompressor = saved
        assert h.get_list("Content-Encoding") == [] and h.get_list("X-Consumed-Content-Encoding") == ["gzip"]
        sent = 0
        err = None
        for s in sizes:
            t = env.spawn(d.data_received(b"z" * (1 if s == 1 else 2 if s == 2 else 3)))
            env.run_ready()
            assert t.done()
            sent += s
            if t.exception() is not None:
                err = t.exception()
                break
        got = sum(len(e[1]) for e in rec.events if e[0] == "d")
        assert got <= maxb, "delivered %d decompressed bytes with max_body_size=%d" % (got, maxb)
        if err is not None:
            assert isinstance(err, httputil.HTTPInputError), "unexpected error type %r" % (err,)
            if exp > chunk_size:
                reached("gzip_no_progress")
            else:
                reached("gzip_over_limit_rejected")
                assert sent * exp > maxb, "rejected although the decompressed body fits max_body_size"
            return
        assert got == sent * exp, "decompressed bytes lost or duplicated: %d != %d" % (got, sent * exp)
        try:
            d.finish()
            fin_err = None
        except Exception as e:
            fin_err = e
        if sent < total:
            reached("gzip_truncated_rejected")
            assert fin_err is not None and ("f",) not in rec.events, "truncated gzip stream accepted"
        else:
            reached("gzip_within_limit")
            assert fin_err is None and rec.events[-1] == ("f",)


# =================================================================================================
# response assembly in simple_httpclient._HTTPConnection
# =================================================================================================

class _St:
    def __init__(self):
        self.n = 0

    def close(self):
        self.n += 1


def pre_as(code: int, sizes: List[int], streaming: bool) -> bool:
    if not (200 <= code <= 599 and len(sizes) <= P.K):
        return False
    for s in sizes:
        if not 0 <= s <= 3:
            return False
    return True


@harness(
    pre=pre_as,
    quick=dict(K=3, timeout=120, reach_timeout=40),
    thorough=dict(K=5, timeout=600, reach_timeout=40),
    nshards=1,
    reach=["assembled_buffered", "assembled_streaming"],
    units=["simple_httpclient._HTTPConnection.headers_received", "simple_httpclient._HTTPConnection.data_received",
           "simple_httpclient._HTTPConnection.finish", "simple_httpclient._HTTPConnection._run_callback",
           "httpclient.HTTPResponse.__init__", "httpclient.HTTPResponse.body"],
    stubs=["_HTTPConnection built with __new__ + fields (no socket); follow_redirects=False (redirects: C09)",
           "chunks are slices of b'abcdefghi' with symbolic sizes 0..3"],
    outside=["redirect handling (C09)", "header_callback text formatting"],
)
def h_response_assembly(code: int, sizes: List[int], streaming: bool):
    with install() as env:
        streamed = []
        req = HTTPRequest("http://a.example/", follow_redirects=False,
                          streaming_callback=(streamed.append if streaming else None))
        req.start_time = 1000
        conn = _HTTPConnection.__new__(_HTTPConnection)
        conn.io_loop = env.loop
        conn.start_time = env.v.now
        conn.start_wall_time = 0
        conn.client = None
        conn.request = _RequestProxy(req, dict(HTTPRequest._DEFAULTS))
        finals, rel = [], []
        conn.final_callback = finals.append
        conn.release_callback = lambda: rel.append(1)
        conn.chunks = []
        conn._timeout = None
        conn._decompressor = None
        conn.code = None
        conn.headers = None
        conn.stream = _St()
        h = httputil.HTTPHeaders()
        h.add("X-A", "1")
        t = env.spawn(conn.headers_received(httputil.ResponseStartLine("HTTP/1.1", code, "R"), h))
        env.run_ready()
        assert t.done() and t.exception() is None
        data = b"abcdefghi"
        pos = 0
        want = b""
        for s in sizes:
            cs = 0 if s == 0 else 1 if s == 1 else 2 if s == 2 else 3
            piece = data[pos:pos + cs]
            pos += cs
            want += piece
            conn.data_received(piece)
        conn.finish()
        env.run_ready()
        assert not env.v.exc_contexts, env.v.exc_contexts
        assert len(finals) == 1 and rel == [1] and conn.stream.n >= 1, "fetch must complete exactly once"
        r = finals[0]
        assert r.code == code and r.reason == "R" and r.headers.get_list("X-A") == ["1"]
        assert r.effective_url == "http://a.example/"
        if streaming:
            reached("assembled_streaming")
            assert b"".join(streamed) == want and r.body == b"", "streamed chunks must concatenate to the body"
        else:
            reached("assembled_buffered")
            assert r.body == want, "body %r != concatenation of delivered chunks %r" % (r.body, want)
        assert (r.error is None) == (200 <= code < 300)
