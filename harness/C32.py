"""C32 - Proxy headers yield a valid client IP and never leak between requests.

Real code driven: tornado.httpserver.HTTPServer.start_request (xheaders=True) -> _ProxyAdapter
(headers_received / finish / on_connection_close / _cleanup) around _CallableAdapter,
_HTTPRequestContext.__init__/_apply_xheaders/_unapply_xheaders, and the real
httputil.HTTPServerRequest constructor reading remote_ip/protocol from connection.context.
Observation point: request.remote_ip / request.protocol as seen by the request callback.

Oracle (the statement): with H = the headers of THIS request only,
  cand(H) = X-Real-Ip if present, else the rightmost X-Forwarded-For entry (OWS-trimmed) that is not
            in trusted_downstream (none if there is no such entry);
  remote_ip == cand(H) when cand(H) is a numeric IP; the socket address when the headers supply no
  numeric IP; (X-Real-Ip present but not numeric, X-Forwarded-For numeric: either reading of
  "precedence" is accepted: the socket address or the X-Forwarded-For candidate);
  protocol in {http, https}, and the connection's own protocol when no scheme header is present;
  a request without proxy headers always sees the socket address / connection protocol, whatever
  came before on the same connection.
"""
import socket
import sys
from typing import List, Tuple

from vp.api import P, harness, in_shard, reached
from harness._misc2 import DummyConnection, ref_is_numeric_ip, fix_time

from tornado import httpserver, httputil, netutil

fix_time(httputil)

SOCK_IP = "10.0.0.9"
V4, V6 = "1.2.3.4", "2001:db8::1"
TRUSTED_POOL = ["5.5.5.5", "6.6.6.6"]
SCHEMES = ["http", "https", "https, http", "http,https", "ftp", "",
           "HTTPS", "Http", "http, HTTPS", "HTTP ,https", "https,hTTp"]    # other spellings, also as list elements
IDX = list(range(16))

_REAL_IS_VALID_IP = netutil.is_valid_ip


def _stub_is_valid_ip(ip: str) -> bool:
    """STUB for netutil.is_valid_ip (getaddrinfo is libc): the reference ASCII numeric-IP recogniser.
    In the plain-interpreter replay every query is cross-checked against the real function."""
    r = ref_is_numeric_ip(ip)
    if "crosshair" not in sys.modules and isinstance(ip, str) and ip.isascii() and "%" not in ip:
        assert _REAL_IS_VALID_IP(ip) == r, "STUB DIVERGES from netutil.is_valid_ip on %r" % (ip,)
    return r


netutil.is_valid_ip = _stub_is_valid_ip


def _validate_stub_table():
    import itertools
    alpha = "019afx.:g ,"
    for ln in range(0, 4):
        for t in itertools.product(alpha, repeat=ln):
            s = "".join(t)
            assert ref_is_numeric_ip(s) == _REAL_IS_VALID_IP(s), "stub table mismatch on %r" % (s,)
    for s in [V4, V6, SOCK_IP] + TRUSTED_POOL + ["::ffff:1.2.3.4", "1.2.3.256", "1:2:3:4:5:6:7:8", "1.2.3.4.5",
                                                  "4294967296", "0x1.2", "08", "1:2", "1.2.3.4 ", "[::1]"]:
        assert ref_is_numeric_ip(s) == _REAL_IS_VALID_IP(s), "stub table mismatch on %r" % (s,)


_validate_stub_table()     # fixed table, every import (plain CPython code, ~5k getaddrinfo calls)


class _Sock:
    family = socket.AF_INET


class _Stream:
    socket = _Sock()


def _ok_chars(s: str) -> bool:
    # header value characters kept inside the claim: printable ASCII + SP/HTAB, no "%" (zone ids);
    # no leading/trailing whitespace (the header parser strips it; HTTPHeaders.add rejects it)
    if len(s) > 0 and (s[0] in " \t" or s[-1] in " \t"):
        return False
    for c in s:
        if not ((" " <= c <= "~") or c == "\t") or c == "%":
            return False
    return True


def _ows(s: str) -> str:
    i, j = 0, len(s)
    while i < j and s[i] in " \t":
        i += 1
    while j > i and s[j - 1] in " \t":
        j -= 1
    return s[i:j]


class Rig:
    def __init__(self, trusted, https):
        self.seen = []
        self.server = httpserver.HTTPServer(self._cb, xheaders=True, trusted_downstream=trusted)
        self.ctx = httpserver._HTTPRequestContext(_Stream(), (SOCK_IP, 4321), "https" if https else None, trusted)
        self.conn = DummyConnection(self.ctx)
        self.sock_proto = "https" if https else "http"

    def _cb(self, request):
        self.seen.append((request.remote_ip, request.protocol))

    def request(self, hdrs, close=False):
        """one request through the real adapters; returns (remote_ip, protocol) seen by the app, or None
        when the connection closed before the request finished"""
        h = httputil.HTTPHeaders()
        h["Host"] = "x"
        for k, v in hdrs:
            # dict-style set: no field-value regex on the symbolic text (CrossHair's model of that regex
            # produced non-replaying artefacts); the precondition keeps the text a valid field value
            h[k] = v
        d = self.server.start_request(None, self.conn)
        d.headers_received(httputil.RequestStartLine("GET", "/", "HTTP/1.1"), h)
        mid = (self.ctx.remote_ip, self.ctx.protocol)
        n = len(self.seen)
        if close:
            d.on_connection_close()
            return mid
        d.finish()
        assert len(self.seen) == n + 1, "callback not run"
        assert self.seen[-1] == mid, "request saw other values than the context held"
        return self.seen[-1]


def _entries(pieces):
    """X-Forwarded-For entries (OWS-trimmed) from the list of joined pieces (a piece may itself contain commas)"""
    out = []
    for p in pieces:
        for e in p.split(","):
            out.append(_ows(e))
    return out


def _expect_ip(real, entries, trusted):
    """-> list of acceptable remote_ip values per the statement (real / entries are None when the header is absent)"""
    xcand = None
    if entries is not None:
        for e in reversed(entries):
            if e not in trusted:
                xcand = e
                break
    xok = xcand is not None and ref_is_numeric_ip(xcand)
    if real is not None:
        if ref_is_numeric_ip(real):
            return [real]
        return [SOCK_IP, xcand] if xok else [SOCK_IP]
    return [xcand] if xok else [SOCK_IP]


def _item(sel: int, g: str) -> str:
    if sel == 0:
        return V4
    if sel == 1:
        return TRUSTED_POOL[0]
    if sel == 2:
        return g
    if sel == 3:
        return V6
    return TRUSTED_POOL[1]


FREE = 2          # selector value meaning "the free text g"
# optional whitespace around the commas of the X-Forwarded-For list (none / after / before / both, SP or HTAB)
SEPS = [", ", " ,", ",", " , ", ",\t", "\t,", " \t, \t"]
MODES = [  # (https socket, dirty earlier request, end by close, scheme header)
    (False, False, False, None),
    (True, True, False, ("X-Scheme", "http")),
    (False, False, True, ("X-Forwarded-Proto", "https")),
    (True, False, False, None),
]


def _trusted(tmask):
    return [TRUSTED_POOL[i] for i in range(2) if tmask >> i & 1]


def classify_ip(**kw):
    xn, sels, g = kw["xn"], kw["sels"], kw["g"]
    trusted = _trusted(kw["tmask"])
    if kw["rsel"] == 5 and xn > 0 and all(_ows(e) in trusted for s in sels[:xn] for e in _item(s, g).split(",")):
        return "xff_all_trusted"
    return None


def pre_ip(rsel: int, xn: int, sels: List[int], g: str, tmask: int, mode: int, ws: int) -> bool:
    if not (0 <= rsel <= 5 and 0 <= xn <= P.NX and (rsel < P.NSEL or rsel == 5)):
        return False
    # dense shard key (no empty shards): X-Real-Ip selector (absent = NSEL) x number of X-Forwarded-For items
    if not in_shard((rsel if rsel < P.NSEL else P.NSEL) + (P.NSEL + 1) * xn):
        return False
    if not (len(sels) == xn and 0 <= tmask < P.NT and 0 <= mode < P.NM):
        return False
    free = rsel == FREE
    for s in sels:
        if not 0 <= s < P.NSEL:
            return False
        if s == FREE:
            free = True
    if not (len(g) <= ((P.G if xn <= 1 else P.G2) if free else 0) and _ok_chars(g)):
        return False
    # whitespace pattern around the list commas: all patterns for lists of pooled items; lists containing the
    # free text use the first NWF patterns (", " and " ,") to bound the number of symbolic-string paths
    if not (0 <= ws < ((P.NWF if free else len(SEPS)) if xn >= 2 else 1)):
        return False
    if P.exclude and classify_ip(rsel=rsel, xn=xn, sels=sels, g=g, tmask=tmask) in P.exclude:
        return False
    return True


@harness(
    pre=pre_ip,
    quick=dict(NX=2, G=2, G2=1, NSEL=3, NT=2, NM=3, NWF=1, timeout=300, reach_timeout=150),
    thorough=dict(NX=3, G=3, G2=2, NSEL=5, NT=4, NM=4, NWF=2, timeout=900, reach_timeout=300),
    nshards=dict(quick=12, thorough=24),
    reach=["real_ip_wins", "xff_rightmost_untrusted", "trusted_skipped", "garbage_falls_back", "all_trusted",
           "clean_after_close", "short_numeric_garbage", "real_garbage_xff_valid",
           "ws_before_comma_trusted_skipped", "tab_after_comma"],
    classify=classify_ip,
    units=["httpserver.HTTPServer.start_request", "httpserver._ProxyAdapter.headers_received/finish/"
           "on_connection_close/_cleanup", "httpserver._CallableAdapter", "httpserver._HTTPRequestContext.__init__/"
           "_apply_xheaders/_unapply_xheaders", "httputil.HTTPServerRequest.__init__ (context read)"],
    stubs=["netutil.is_valid_ip replaced by the pure-Python ASCII numeric-IP recogniser harness/_misc2.ref_is_numeric_ip "
           "(getaddrinfo is libc); the stub is compared with the real function on a fixed table (~1.5k strings) at every "
           "import and on every query of every replayed witness",
           "fake stream object with socket.family = AF_INET, address ('10.0.0.9', 4321); DummyConnection carries the context",
           "X-Real-Ip and each X-Forwarded-For item by symbolic selector from {1.2.3.4, 5.5.5.5, free text g <= G cp "
           "(one shared free text per request), thorough: + 2001:db8::1, 6.6.6.6}; X-Real-Ip may be absent; "
           "trusted_downstream = symbolic subset of {5.5.5.5, 6.6.6.6} (quick: {} or {5.5.5.5})",
           "list separator by symbolic index from %r (optional whitespace before / after / on both sides of the comma, SP or "
           "HTAB); lists that contain the free text use only the first NWF of them" % (SEPS,),
           "mode = (socket protocol, an earlier rewriting request on the same connection, end by finish/close, a scheme header)",
           "header characters: printable ASCII, SP, HTAB, no '%' (zone ids are environment dependent)",
           "constant clock for HTTPServerRequest._start_time"],
    outside=["the libc part of is_valid_ip; non-ASCII header text (observation: the real is_valid_ip accepts e.g. '\\xb2' "
             "because getaddrinfo IDNA/NFKC-normalises it to '2')", "AF_UNIX sockets", "more than NX X-Forwarded-For items", "free text longer than G (<= 1 item) / G2 (more items) code points"],
)
def h_ip(rsel: int, xn: int, sels: List[int], g: str, tmask: int, mode: int, ws: int):
    rsel, xn, tmask, mode = IDX[rsel], IDX[xn], IDX[tmask], IDX[mode]
    https, dirty, close, sch = MODES[mode]
    trusted = _trusted(tmask)
    rig = Rig(trusted, https)
    if dirty:   # an earlier keep-alive request that rewrote both fields
        got = rig.request([("X-Real-Ip", "9.9.9.9"), ("X-Scheme", "http" if https else "https")])
        assert got == ("9.9.9.9", "http" if https else "https"), "dirty request"
    hdrs = []
    real = None if rsel == 5 else _item(rsel, g)
    if real is not None:
        hdrs.append(("X-Real-Ip", real))
    xff = entries = None
    if xn > 0:
        pieces = [_item(sels[k], g) for k in range(xn)]
        xff = pieces[0]
        sep = SEPS[IDX[ws]]
        for k in range(1, xn):
            xff = xff + sep + pieces[k]
        xff = _ows(xff)       # the header parser strips optional whitespace around the value
        hdrs.append(("X-Forwarded-For", xff))
        entries = _entries(pieces)
    if sch is not None:
        hdrs.append(sch)
    ip, pr = rig.request(hdrs, close=close)
    # ---- oracle
    acc = _expect_ip(real, entries, trusted)
    if real is not None and acc == [real] and xff is not None:
        reached("real_ip_wins")
    if real is not None and len(acc) == 2:
        reached("real_garbage_xff_valid")
    if real is None and xn >= 2 and acc != [SOCK_IP] and entries[-1] in trusted:
        if sep[0] in " \t":
            reached("ws_before_comma_trusted_skipped")
        if sep == ",\t":
            reached("tab_after_comma")
    if real is None and xff is not None and acc != [SOCK_IP]:
        reached("xff_rightmost_untrusted")
        if entries[-1] in trusted:
            reached("trusted_skipped")
        if len(acc[0]) <= 2:
            reached("short_numeric_garbage")
    if (real is not None or xff is not None) and acc == [SOCK_IP]:
        reached("garbage_falls_back")
    if real is None and xff is not None and all([e in trusted for e in entries]):
        reached("all_trusted")
    assert ip in acc, "remote_ip %r, the statement allows %r (X-Real-Ip=%r X-Forwarded-For=%r trusted=%r)" % (
        ip, acc, real, xff, trusted)
    assert pr in ("http", "https"), "protocol %r" % (pr,)
    assert pr == (sch[1] if sch is not None else rig.sock_proto), "protocol"
    # ---- the next request on the same connection carries no proxy headers
    ip2, pr2 = rig.request([])
    if close:
        reached("clean_after_close")
    assert (ip2, pr2) == (SOCK_IP, rig.sock_proto), \
        "values of the previous request leaked into the next one: %r" % ((ip2, pr2),)
    assert (rig.ctx.remote_ip, rig.ctx.protocol) == (SOCK_IP, rig.sock_proto), "context not restored"


# ------------------------------------------------------------------------------------------------
# protocol rewriting with symbolic scheme header text


def pre_proto(ssel: int, sg: str, psel: int, pg: str, https: bool, withip: bool) -> bool:
    nsc = len(SCHEMES)
    if not (0 <= ssel <= nsc + 1 and 0 <= psel <= nsc + 1 and in_shard(ssel)):
        return False
    if not (len(sg) <= (P.G if ssel == nsc + 1 else 0) and len(pg) <= (P.G if psel == nsc + 1 else 0)):
        return False
    if ssel == nsc + 1 and 6 <= psel < nsc:
        return False      # free X-Scheme text: X-Forwarded-Proto from the first 6 pool values / absent / free
    if withip and ssel != 0 and ssel != nsc:
        return False      # the X-Real-Ip companion header only with X-Scheme: http / absent (bounds the product)
    return _ok_chars(sg) and _ok_chars(pg)


@harness(
    pre=pre_proto,
    quick=dict(G=2, timeout=250),
    thorough=dict(G=4, timeout=900),
    nshards=len(SCHEMES) + 2,
    reach=["proto_rewritten", "proto_garbage_kept", "x_scheme_over_forwarded_proto", "other_spelling_alone",
           "other_spelling_last_in_list", "exact_last_after_other_spelling"],
    units=["httpserver._HTTPRequestContext._apply_xheaders/_unapply_xheaders", "httpserver._ProxyAdapter",
           "httpserver._CallableAdapter", "httputil.HTTPServerRequest.__init__"],
    stubs=["X-Scheme / X-Forwarded-Proto: absent, one of %r, or free text <= G cp (printable ASCII, SP, HTAB)" % (SCHEMES,),
           "netutil.is_valid_ip stub as in h_ip; fake stream/connection as in h_ip"],
    outside=["non-ASCII scheme text"],
)
def h_proto(ssel: int, sg: str, psel: int, pg: str, https: bool, withip: bool):
    nsc = len(SCHEMES)
    ssel, psel = IDX[ssel], IDX[psel]
    rig = Rig([], https)
    scheme = None if ssel == nsc else (sg if ssel == nsc + 1 else SCHEMES[ssel])
    proto = None if psel == nsc else (pg if psel == nsc + 1 else SCHEMES[psel])
    hdrs = [("X-Real-Ip", V6)] if withip else []
    if scheme is not None:
        hdrs.append(("X-Scheme", scheme))
    if proto is not None:
        hdrs.append(("X-Forwarded-Proto", proto))
    ip, pr = rig.request(hdrs)
    assert ip == (V6 if withip else SOCK_IP), "remote_ip %r" % (ip,)
    assert pr in ("http", "https"), "protocol %r is neither http nor https" % (pr,)
    if scheme is None and proto is None:
        assert pr == rig.sock_proto, "no scheme header: protocol must be the connection's own"
    else:
        eff = scheme if scheme is not None else proto
        last = _ows(eff.split(",")[-1])
        if last in ("http", "https"):
            # documented: the proxy's (last) scheme entry is honoured, X-Scheme first
            assert pr == last, "scheme header %r not honoured (protocol %r)" % (eff, pr)
            if "H" in eff or "T" in eff:
                reached("exact_last_after_other_spelling")
            if pr != rig.sock_proto:
                reached("proto_rewritten")
                if scheme is not None and proto is not None and _ows(proto.split(",")[-1]) != last:
                    reached("x_scheme_over_forwarded_proto")
        elif last.lower() in ("http", "https"):
            # http/https in another spelling: the header-supplied text is NOT one of the two strings, so it must
            # never be stored; leaving the socket protocol, or (case-insensitive acceptance) storing the lower-case
            # form, both keep "protocol is http or https"
            if "," in eff:
                reached("other_spelling_last_in_list")
            else:
                reached("other_spelling_alone")
            assert pr != last, "non-canonical spelling %r stored as the protocol" % (last,)
            assert pr == rig.sock_proto or pr == last.lower(), \
                "scheme header %r changed the protocol to %r" % (eff, pr)
        else:
            reached("proto_garbage_kept")
            assert pr == rig.sock_proto, "unusable scheme header %r changed the protocol to %r" % (eff, pr)
    ip2, pr2 = rig.request([])
    assert (ip2, pr2) == (SOCK_IP, rig.sock_proto), "leak into the next request: %r" % ((ip2, pr2),)


# ------------------------------------------------------------------------------------------------
# keep-alive histories: <= N requests on ONE context, each with one of the pooled header sets

HSETS = [
    [],
    [("X-Real-Ip", V4)],
    [("X-Forwarded-For", "%s, %s" % (V6, TRUSTED_POOL[0]))],
    [("X-Scheme", "https")],
    [("X-Forwarded-Proto", "http"), ("X-Real-Ip", "bogus")],
    None,     # X-Real-Ip: free text g
]
# expected (remote_ip or None = socket, protocol or None = socket) for the concrete sets
HEXP = [(None, None), (V4, None), (V6, None), (None, "https"), (None, "http")]


def pre_hist(n: int, r0: int, r1: int, r2: int, r3: int, g: str, https: bool, close_last: bool) -> bool:
    nh = len(HSETS)
    if not (1 <= n <= P.N and 0 <= r0 < nh and in_shard(r0 + nh * (n - 1))):
        return False
    # unused slots are pinned to 0 (plain ints instead of List[int]: CrossHair's list model raised an
    # internal error on indexed access in the precondition)
    if not (0 <= r1 < (nh if n > 1 else 1) and 0 <= r2 < (nh if n > 2 else 1) and 0 <= r3 < (nh if n > 3 else 1)):
        return False
    uses_g = r0 == 5 or r1 == 5 or r2 == 5 or r3 == 5
    if https and not P.HS:
        return False
    return len(g) <= (P.G if uses_g else 0) and _ok_chars(g)


@harness(
    pre=pre_hist,
    quick=dict(N=3, G=1, HS=0, timeout=150),
    thorough=dict(N=4, G=3, HS=1, timeout=900),
    nshards=dict(quick=18, thorough=24),
    reach=["plain_after_rewrite", "rewrite_after_rewrite", "closed_then_next", "free_text_numeric"],
    units=["httpserver.HTTPServer.start_request", "httpserver._ProxyAdapter (all methods)", "httpserver._CallableAdapter",
           "httpserver._HTTPRequestContext._apply_xheaders/_unapply_xheaders"],
    stubs=["each request carries one of 6 pooled header sets (none / X-Real-Ip v4 / X-Forwarded-For 'v6, trusted' / X-Scheme / "
           "X-Forwarded-Proto + bogus X-Real-Ip / X-Real-Ip = free text g <= G cp); trusted_downstream = [5.5.5.5]",
           "netutil.is_valid_ip stub, fake stream/connection as in h_ip"],
    outside=["histories longer than N requests", "pipelined (overlapping) requests: HTTP/1 serves one request at a time per connection"],
)
def h_history(n: int, r0: int, r1: int, r2: int, r3: int, g: str, https: bool, close_last: bool):
    rig = Rig([TRUSTED_POOL[0]], https)
    prev_rewrote = False
    n = IDX[n]
    reqs = [r0, r1, r2, r3][:n]
    for i in range(n):
        r = IDX[reqs[i]]
        if r == 5:
            hdrs = [("X-Real-Ip", g)]
            eip = g if ref_is_numeric_ip(g) else None
            epr = None
            if eip is not None:
                reached("free_text_numeric")
        else:
            hdrs = HSETS[r]
            eip, epr = HEXP[r]
        last = i == n - 1
        ip, pr = rig.request(hdrs, close=(last and close_last))
        want = (eip if eip is not None else SOCK_IP, epr if epr is not None else rig.sock_proto)
        if prev_rewrote and r == 0:
            reached("plain_after_rewrite")
        if prev_rewrote and r != 0:
            reached("rewrite_after_rewrite")
        assert (ip, pr) == want, "request %d of %r saw %r, its own headers give %r" % (i, reqs, (ip, pr), want)
        prev_rewrote = want != (SOCK_IP, rig.sock_proto)
    if close_last:
        reached("closed_then_next")
    assert rig.request([]) == (SOCK_IP, rig.sock_proto), "leak after the history"
