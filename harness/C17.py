"""C17 - WebSocket handshakes accept exactly the valid, permitted upgrades.

Real code driven: RequestHandler._execute -> WebSocketHandler.get / check_origin / get_websocket_protocol,
WebSocketProtocol13.accept_connection / _handle_websocket_headers / _accept_connection / _parse_extensions_header /
_create_compressors / _get_compressor_options / compute_accept_value / _process_server_headers,
httputil._parse_header / _encode_header.
Oracle: the statement (RFC 6455 4.2.1/4.2.2 header requirements, 1.3 accept value, RFC 7692 negotiation).
"""
import base64 as _b64
import hashlib as _hl
from typing import List, Tuple

from vp.api import P, harness, in_shard, reached
from vp.env import install
from vp.fakestream import FakeStream

import tornado.websocket as W
from tornado import httputil

from harness import _ws_rig as R

RFC_GUID = "258EAFA5-E914-47DA-95CA-C5AB0DC85B11"          # RFC 6455 section 1.3 / 4.2.2

# ---------------------------------------------------------------- pools (index 0 = the valid baseline)
UPG = ["websocket", None, "WebSocket", "h2c", "", "websocket2"]
CONN = ["Upgrade", None, "keep-alive, Upgrade", "keep-alive", "upgradex", "UPGRADE"]
KEY = ["dGhlIHNhbXBsZSBub25jZQ==", None, "", "AAAAAAAAAAAAAAAAAAAAAA=="]
VER = ["13", None, "8", "7", "12", "", "13, 8"]
HOST = ["example.com", "example.com:8080", "Example.COM", ""]   # absent Host: refused by HTTPServerRequest (HTTP layer)
# origin = (text, host:port it names, clean) ; clean = no userinfo / case games
ORIG = [(None, None, True), ("http://example.com", "example.com", True),
        ("https://example.com:8080", "example.com:8080", True), ("http://EXAMPLE.com", "example.com", False),
        ("http://evil.com", "evil.com", True), ("http://example.com.evil.com", "example.com.evil.com", True),
        ("http://example.com@evil.com", "evil.com", False), ("http://evil.com/example.com", "evil.com", True),
        ("http://example.com:80", "example.com:80", True), ("null", "", True),
        ("http://evil.com#example.com", "evil.com", True), ("http://evilexample.com", "evilexample.com", True),
        # an Origin header that is present but EMPTY (`Origin:`; a whitespace-only value is stripped to this by
        # HTTPHeaders.parse_line and refused by HTTPHeaders.add): names no host, so it can never equal Host
        ("", "", True)]


def rfc_accept(key):
    return _b64.b64encode(_hl.sha1((key + RFC_GUID).encode("ascii")).digest()).decode("ascii")


def pre_req(u: int, c: int, k: int, v: int, h: int, o: int, legacy_origin: bool) -> bool:
    if not (0 <= u < len(UPG) and 0 <= c < len(CONN) and 0 <= k < len(KEY) and 0 <= v < len(VER)
            and 0 <= h < len(HOST) and 0 <= o < len(ORIG)):
        return False
    dev = 0
    for x in (u, c, k, v, h):
        if x != 0:
            dev += 1
    if dev > P.DEV:
        return False
    if legacy_origin and o == 0:
        return False
    if P.reach == "empty_origin_refused":       # reach twin only: steer the witness search
        return o == len(ORIG) - 1 and dev == 0
    return in_shard(o)


@harness(
    pre=pre_req,
    quick=dict(DEV=2, timeout=150, reach_timeout=60),
    thorough=dict(DEV=3, timeout=1200, reach_timeout=120),
    nshards=dict(quick=13, thorough=13),
    reach=["accepted_101", "cross_origin_403", "empty_origin_refused", "bad_version_426", "missing_key_400"],
    units=["web.RequestHandler._execute", "websocket.WebSocketHandler.get", "websocket.WebSocketHandler.check_origin",
           "websocket.WebSocketHandler.get_websocket_protocol", "websocket.WebSocketProtocol13.accept_connection",
           "websocket.WebSocketProtocol13._handle_websocket_headers", "websocket.WebSocketProtocol13._accept_connection",
           "websocket.WebSocketProtocol13.compute_accept_value"],
    stubs=["stand-in HTTPConnection (_ws_rig.FakeConn), real Application / HTTPServerRequest / HTTPHeaders; fixed clock",
           "header values from pools by symbolic index (request concrete per path): Upgrade x6, Connection x6, key x4, "
           "version x7, Host x4 (a request without Host never reaches the handler: HTTPServerRequest raises), Origin x13 (incl. the empty value) (case, port, userinfo, path, fragment, null) sent as Origin or as "
           "Sec-WebSocket-Origin; at most DEV of Upgrade/Connection/key/version/Host deviate from the valid baseline",
           "real hashlib/base64 on the concrete pooled keys: the response accept value is compared with "
           "base64(sha1(key + RFC GUID)) computed by the harness (incl. the RFC 6455 sample key/accept pair)"],
    outside=["header values outside the pools (free strings: h_origin_unit, h_client)", "HTTP parsing (C01-C05)"],
)
def h_srv_req(u: int, c: int, k: int, v: int, h: int, o: int, legacy_origin: bool):
    R.apply_shims()
    cu, cc, ck, cv, ch, co = (R.pick(u, len(UPG)), R.pick(c, len(CONN)), R.pick(k, len(KEY)),
                              R.pick(v, len(VER)), R.pick(h, len(HOST)), R.pick(o, len(ORIG)))
    hdrs = []
    for name, val in (("Host", HOST[ch]), ("Upgrade", UPG[cu]), ("Connection", CONN[cc]),
                      ("Sec-WebSocket-Key", KEY[ck]), ("Sec-WebSocket-Version", VER[cv]),
                      ("Sec-WebSocket-Origin" if legacy_origin else "Origin", ORIG[co][0])):
        if val is not None:
            hdrs.append((name, val))
    with install() as env:
        st = FakeStream(env.loop)
        handler, rec, conn, task = R.make_server(env, st, hdrs)
        # ---- reference decision
        upg, cn, key, ver, host = UPG[cu], CONN[cc], KEY[ck], VER[cv], HOST[ch]
        ok_upgrade = upg is not None and upg.lower() == "websocket"
        ok_conn = cn is not None and "upgrade" in [t.strip().lower() for t in cn.split(",")]
        ok_key = bool(key)
        ok_ver = ver in ("7", "8", "13")
        ok_host = bool(host)
        otext, ohostport, oclean = ORIG[co]
        if otext is None:
            origin_must, origin_may = True, True
        else:
            same = host is not None and ohostport.lower() == host.lower() and ohostport != ""
            origin_must = same and oclean and host == host.lower()
            origin_may = same
        required = ok_upgrade and ok_conn and ok_key and ok_ver and ok_host
        code = conn.start_line.code if conn.start_line is not None else None
        assert not env.v.exc_contexts and not rec.logged, "uncaught exception: %r %r" % (env.v.exc_contexts, rec.logged)
        if code == 101:
            reached("accepted_101")
            assert required, "handshake completed although a required header is missing/invalid: %r" % (hdrs,)
            assert origin_may, "default origin check accepted Origin %r for Host %r" % (otext, host)
            assert conn.headers.get("Sec-WebSocket-Accept") == rfc_accept(key), "wrong Sec-WebSocket-Accept"
            assert conn.headers.get("Upgrade", "").lower() == "websocket"
            assert conn.headers.get("Connection", "").lower() == "upgrade"
            assert conn.headers.get("Sec-WebSocket-Extensions") is None and \
                conn.headers.get("Sec-WebSocket-Protocol") is None, "negotiated something that was not offered"
            assert conn.detached and rec.opened == 1 and not task.done()
        else:
            assert not (required and origin_must), \
                "valid, same-origin upgrade request was refused with %r: %r" % (code, hdrs)
            assert code is not None and 400 <= code < 500, "refusal must be a 4xx response, got %r" % code
            assert not conn.detached and rec.opened == 0, "connection was upgraded although the handshake was refused"
            assert conn.headers.get("Sec-WebSocket-Accept") is None
            if required and not origin_may:
                reached("cross_origin_403")
                assert code == 403, "cross-origin upgrade must be answered 403, got %r" % code
                if otext == "":
                    reached("empty_origin_refused")
            if ok_upgrade and ok_conn and origin_may and not ok_ver and ver is not None:
                reached("bad_version_426")
            if ok_upgrade and ok_conn and origin_may and ok_ver and key is None:
                reached("missing_key_400")


# ----------------------------------------------------------------------------------------------
# Negotiation: subprotocols and permessage-deflate offers on an otherwise valid request.
PROTO = [None, "a", "a, b", "b,a", ""]
SELECT = [None, "a", "b"]
EXT = [None, "permessage-deflate", "permessage-deflate; client_max_window_bits",
       "permessage-deflate; client_max_window_bits=10", "x-webkit-deflate-frame",
       "x-foo, permessage-deflate", "permessage-deflate; bogus=1", "permessage-deflate; client_max_window_bits=abc",
       "permessage-deflate; server_max_window_bits=7", "permessage-deflate; server_max_window_bits=12; "
       "client_no_context_takeover=x", ""]
EXT_MALFORMED = (6, 7, 8)


def classify_neg(pr: int, sel: int, ex: int, comp_on: bool):
    if comp_on and ex in EXT_MALFORMED:
        return "malformed_deflate_offer_500"
    return None


def pre_neg(pr: int, sel: int, ex: int, comp_on: bool) -> bool:
    if not (0 <= pr < len(PROTO) and 0 <= sel < len(SELECT) and 0 <= ex < len(EXT)):
        return False
    if classify_neg(pr, sel, ex, comp_on) in P.exclude:
        return False
    return in_shard(ex)


@harness(
    pre=pre_neg,
    quick=dict(timeout=120, reach_timeout=60),
    thorough=dict(timeout=600, reach_timeout=120),
    nshards=dict(quick=4, thorough=4),
    reach=["deflate_negotiated", "deflate_offer_ignored_when_disabled", "subprotocol_echoed", "malformed_offer"],
    classify=classify_neg,
    units=["websocket.WebSocketProtocol13._accept_connection", "websocket.WebSocketProtocol13._parse_extensions_header",
           "websocket.WebSocketProtocol13._create_compressors", "websocket.WebSocketProtocol13._get_compressor_options",
           "httputil._parse_header", "httputil._encode_header"],
    stubs=["as h_srv_req; Sec-WebSocket-Protocol x5 and Sec-WebSocket-Extensions x11 from pools by symbolic index, "
           "application selects None/'a'/'b' (only when offered), compression enabled or not; zlib stand-in"],
    outside=["offers outside the pool", "an application that selects a subprotocol that was not offered (tornado asserts)"],
)
def h_srv_neg(pr: int, sel: int, ex: int, comp_on: bool):
    R.apply_shims()
    cpr, csel, cex = R.pick(pr, len(PROTO)), R.pick(sel, len(SELECT)), R.pick(ex, len(EXT))
    offered = [s.strip() for s in PROTO[cpr].split(",")] if PROTO[cpr] else []
    select = SELECT[csel] if SELECT[csel] in offered else None
    hdrs = list(R.GOOD_HEADERS)
    if PROTO[cpr] is not None:
        hdrs.append(("Sec-WebSocket-Protocol", PROTO[cpr]))
    if EXT[cex] is not None:
        hdrs.append(("Sec-WebSocket-Extensions", EXT[cex]))
    with install() as env:
        st = FakeStream(env.loop)
        rec = R.SrvRec()
        rec.comp_opts = {} if comp_on else None
        rec.select = select
        handler, rec, conn, task = R.make_server(env, st, hdrs, rec=rec)
        code = conn.start_line.code if conn.start_line is not None else None
        offers_deflate = EXT[cex] is not None and "permessage-deflate" in [
            e.split(";")[0].strip() for e in EXT[cex].split(",")]
        malformed = cex in EXT_MALFORMED
        if malformed and comp_on:
            reached("malformed_offer")
            assert code in (101, 400), "malformed permessage-deflate offer answered with %r" % code
            assert not env.v.exc_contexts and not rec.logged, \
                "malformed permessage-deflate offer caused an uncaught exception: %r %r" % (env.v.exc_contexts, rec.logged)
            if code == 101:
                assert conn.headers.get("Sec-WebSocket-Extensions") is None
            return
        assert not env.v.exc_contexts and not rec.logged, "uncaught exception: %r %r" % (env.v.exc_contexts, rec.logged)
        assert code == 101 and conn.detached, "valid upgrade refused with %r" % code
        assert conn.headers.get("Sec-WebSocket-Accept") == rfc_accept(R.GOOD_HEADERS[3][1])
        # subprotocol
        assert rec.offered == offered, "select_subprotocol got %r, offered %r" % (rec.offered, offered)
        got_proto = conn.headers.get("Sec-WebSocket-Protocol")
        if select:
            reached("subprotocol_echoed")
        assert got_proto == select, "response subprotocol %r, application selected %r" % (got_proto, select)
        # extension
        got_ext = conn.headers.get("Sec-WebSocket-Extensions")
        if got_ext is not None:
            reached("deflate_negotiated")
            assert offers_deflate and comp_on, "permessage-deflate in the response although not offered/enabled"
            name, params = httputil._parse_header(got_ext)
            assert name == "permessage-deflate"
            oname, oparams = None, {}
            for e in EXT[cex].split(","):
                n_, p_ = httputil._parse_header(e.strip())
                if n_ == "permessage-deflate":
                    oname, oparams = n_, p_
                    break
            for k_ in params:
                assert k_ in oparams, "response parameter %r was not offered" % k_
            assert ";" not in got_ext or "client_max_window_bits;" not in got_ext + ";", \
                "client_max_window_bits echoed without a value"
            assert handler.ws_connection._compressor is not None and handler.ws_connection._decompressor is not None
        else:
            if offers_deflate and not comp_on:
                reached("deflate_offer_ignored_when_disabled")
            assert handler.ws_connection._compressor is None and handler.ws_connection._decompressor is None, \
                "compression active without a permessage-deflate response"


# ----------------------------------------------------------------------------------------------
# Client side + accept-value dataflow at unit level with free strings.
class _Sha1:
    """Injective stand-in for hashlib.sha1 (digest = the concatenated input)."""

    def __init__(self):
        self.buf = b""

    def update(self, b):
        self.buf += b

    def digest(self):
        return self.buf


class _FakeHashlib:
    @staticmethod
    def sha1():
        return _Sha1()


class _FakeB64:
    @staticmethod
    def b64encode(b):
        return b"B64:" + b


C_UPG = ["WebSocket", "h2c"]
C_CONN = ["Upgrade", "keep-alive", None]
C_EXT = [None, "permessage-deflate", "permessage-deflate; client_max_window_bits=10", "x-foo",
         "permessage-deflate, x-foo", "permessage-deflate; bogus=1"]


def pre_client(key: str, accept: str, acc_mode: int, cu: int, cc: int, ce: int, comp_on: bool) -> bool:
    if len(key) > P.L or len(accept) > P.L + 1:
        return False
    for ch in key:
        if not (0x21 <= ord(ch) <= 0x7E):
            return False
    for ch in accept:
        if not (0x20 <= ord(ch) <= 0x7E):
            return False
    if not (0 <= acc_mode <= 2 and 0 <= cu < len(C_UPG) and 0 <= cc < len(C_CONN) and 0 <= ce < len(C_EXT)):
        return False
    if acc_mode != 1 and accept != "":
        return False
    # reach twins only: steer the witness search (a subset of the bounds above)
    if P.reach == "client_accepts":
        return acc_mode == 0 and cu == 0 and cc == 0 and ce == 0 and len(key) == 0
    if P.reach == "client_rejects_unoffered_extension":
        return acc_mode == 0 and cu == 0 and cc == 0 and ce == 3 and len(key) == 0
    if P.reach == "client_rejects_wrong_accept":
        return acc_mode == 2 and cu == 0 and cc == 0 and ce == 0 and len(key) == 0
    return in_shard(ce)


@harness(
    pre=pre_client,
    quick=dict(L=1, timeout=150, reach_timeout=60),
    thorough=dict(L=3, timeout=900, reach_timeout=120),
    nshards=dict(quick=6, thorough=6),
    reach=["client_accepts", "client_rejects_wrong_accept", "client_rejects_unoffered_extension"],
    units=["websocket.WebSocketProtocol13._process_server_headers", "websocket.WebSocketProtocol13.compute_accept_value",
           "websocket.WebSocketProtocol13._parse_extensions_header", "websocket.WebSocketProtocol13._create_compressors"],
    stubs=["tornado.websocket.hashlib / base64 -> injective stand-ins (digest = input, b64 = 'B64:' + input): the claim is "
           "the DATAFLOW key + GUID -> accept header (the GUID literal is compared with RFC 6455's); real SHA-1 is "
           "exercised on pooled keys in h_srv_req", "key: free printable-ASCII str <= L; accept: correct value | free str | "
           "absent; Upgrade/Connection/extension response from pools; client created with or without compression",
           "rejection = any exception out of _process_server_headers (tornado uses assert/KeyError/ValueError)"],
    outside=["python -O (tornado's client-side checks are assert statements)", "subprotocol the client did not offer "
             "(not checked by _process_server_headers; WebSocketClientConnection level)"],
)
def h_client(key: str, accept: str, acc_mode: int, cu: int, cc: int, ce: int, comp_on: bool):
    R.apply_shims()
    W.hashlib, W.base64 = _FakeHashlib, _FakeB64
    try:
        # server-side dataflow of the same function
        assert W.WebSocketProtocol13.compute_accept_value(key) == "B64:" + key + RFC_GUID, \
            "accept value is not f(key + RFC GUID)"
        good = "B64:" + key + RFC_GUID
        ccu, ccc, cce = R.pick(cu, len(C_UPG)), R.pick(cc, len(C_CONN)), R.pick(ce, len(C_EXT))
        hh = httputil.HTTPHeaders()
        if C_UPG[ccu] is not None:
            hh.add("Upgrade", C_UPG[ccu])
        if C_CONN[ccc] is not None:
            hh.add("Connection", C_CONN[ccc])
        if acc_mode == 0:
            hh["Sec-WebSocket-Accept"] = good
            acc_ok = True
        elif acc_mode == 1:
            hh["Sec-WebSocket-Accept"] = accept
            acc_ok = accept == good
        else:
            acc_ok = False
        if C_EXT[cce] is not None:
            hh.add("Sec-WebSocket-Extensions", C_EXT[cce])
        params = W._WebSocketParams(compression_options={} if comp_on else None)
        p = W.WebSocketProtocol13(R.Rec(), True, params)
        try:
            p._process_server_headers(key, hh)
            accepted = True
        except Exception:
            accepted = False
        hdr_ok = C_UPG[ccu] is not None and C_UPG[ccu].lower() == "websocket" and \
            C_CONN[ccc] is not None and C_CONN[ccc].lower() == "upgrade"
        ext = C_EXT[cce]
        if ext is None:
            ext_ok = True
        else:
            names = [e.split(";")[0].strip() for e in ext.split(",")]
            ext_ok = comp_on and names == ["permessage-deflate"] and "bogus" not in ext
        if accepted:
            reached("client_accepts")
            assert hdr_ok, "client accepted a response without Upgrade: websocket / Connection: upgrade"
            assert acc_ok, "client accepted a wrong Sec-WebSocket-Accept value"
            assert ext_ok, "client accepted an extension it did not offer / cannot handle: %r" % (ext,)
            assert (p._compressor is not None) == (ext is not None), "compression state does not follow the response"
        else:
            if hdr_ok and ext_ok and not acc_ok:
                reached("client_rejects_wrong_accept")
            if hdr_ok and acc_ok and not ext_ok:
                reached("client_rejects_unoffered_extension")
            assert not (hdr_ok and acc_ok and ext_ok), "client refused a correct handshake response"
    finally:
        W.hashlib, W.base64 = _hl, _b64


# ----------------------------------------------------------------------------------------------
# Default origin check at unit level with free characters around pooled components.
O_SCHEME = ["http://", "https://", "ws://", "//", ""]
O_HOST = ["example.com", "EXAMPLE.com", "evil.com", "example.com:8080", "u@example.com", ""]
H_HOST = ["example.com", "example.com:8080", "Example.com"]


class _Req:
    def __init__(self, headers):
        self.headers = headers


class _H:
    """Just enough of a handler for the unbound WebSocketHandler.check_origin."""

    def __init__(self, headers):
        self.request = _Req(headers)


def pre_origin(sc: int, oh: int, hh: int, pre_s: str, suf: str) -> bool:
    if len(pre_s) > P.LP or len(suf) > P.L:
        return False
    for ch in pre_s + suf:
        if not (0x21 <= ord(ch) <= 0x7E):
            return False
        if ch in "[]":
            return False      # urlsplit raises ValueError on unbalanced IPv6 brackets (request then fails with 500)
    if not (0 <= sc < len(O_SCHEME) and 0 <= oh < len(O_HOST) and 0 <= hh < len(H_HOST)):
        return False
    if P.reach == "empty_origin_rejected":      # reach twin only: steer the witness search
        return sc == len(O_SCHEME) - 1 and oh == len(O_HOST) - 1 and len(pre_s) == 0 and len(suf) == 0
    return in_shard(oh)


def ref_netloc(url):
    """RFC 3986 3.2: the authority follows '//' and ends at the next '/', '?' or '#'.  Scheme = up to the first ':'
    when it is a letter followed by letters/digits/+-."""
    rest = url
    i = url.find(":")
    if i > 0:
        sch = url[:i]
        ok = sch[0].isalpha() and sch.isascii()
        for ch in sch:
            if not (ch.isalnum() or ch in "+-."):
                ok = False
        if ok:
            rest = url[i + 1:]
    if rest[:2] != "//":
        return ""
    rest = rest[2:]
    end = len(rest)
    for d in "/?#":
        j = rest.find(d)
        if j >= 0 and j < end:
            end = j
    return rest[:end]


@harness(
    pre=pre_origin,
    quick=dict(L=0, LP=0, timeout=100, reach_timeout=60),
    thorough=dict(L=1, LP=0, timeout=900, reach_timeout=120),
    nshards=dict(quick=6, thorough=6),
    reach=["same_origin_accepted", "cross_origin_rejected", "empty_origin_rejected"],
    units=["websocket.WebSocketHandler.check_origin"],
    stubs=["urllib.parse.urlsplit's lru_cache bypassed (urlsplit.__wrapped__) so the Origin stays symbolic",
           "quick: pooled components only (L=0); thorough: one free character after the host (urlsplit on symbolic "
           "text costs ~3 s per path, so thorough is a bounded search)",
           "Origin = scheme (pool) + <= LP free printable chars + host (pool, case / port / userinfo variants) + <= L "
           "free printable chars; Host header from a pool; reference = RFC 3986 authority extraction"],
    outside=["'[' / ']' in the free characters (urlsplit raises ValueError)", "non-ASCII / control characters"],
)
def h_origin_unit(sc: int, oh: int, hh: int, pre_s: str, suf: str):
    import urllib.parse as up
    saved = up.urlsplit
    if hasattr(saved, "__wrapped__"):
        up.urlsplit = saved.__wrapped__
    try:
        origin = O_SCHEME[R.pick(sc, len(O_SCHEME))]
        if len(pre_s) > 0:
            origin = origin + pre_s
        origin = origin + O_HOST[R.pick(oh, len(O_HOST))]
        if len(suf) > 0:
            origin = origin + suf
        host = H_HOST[R.pick(hh, len(H_HOST))]
        headers = httputil.HTTPHeaders()
        headers.add("Host", host)
        got = W.WebSocketHandler.check_origin(_H(headers), origin)
        netloc = ref_netloc(origin)
        at = netloc.rfind("@")
        hostport = netloc[at + 1:] if at >= 0 else netloc
        if got:
            reached("same_origin_accepted")
            assert hostport.lower() == host.lower() and hostport != "", \
                "default check_origin accepted Origin %r for Host %r" % (origin, host)
        else:
            if hostport.lower() != host.lower():
                reached("cross_origin_rejected")
            if len(origin) == 0:
                reached("empty_origin_rejected")
            assert not (netloc == host and host == host.lower()), \
                "default check_origin rejected the same-origin Origin %r for Host %r" % (origin, host)
    finally:
        up.urlsplit = saved
