"""C18: obligations on the LLVM IR of the CURRENT tornado/speedups.c (Engine D, engines/llk.py).

CPython API contracts used as stubs (the trusted part of the claim):
  PyArg_ParseTuple(args, "s#s#", &mask, &mask_len, &data, &data_len)
        returns 0 (exception set, out-params untouched)  or  non-zero with mask/data pointing to READ-ONLY
        buffers of exactly mask_len / data_len bytes (both >= 0), contents arbitrary
  PyBytes_FromStringAndSize(NULL, n)   n >= 0: NULL (MemoryError set) or a new bytes object whose buffer has n
        writable bytes (uninitialised)     [n < 0: SystemError, NULL]
  PyBytes_AsString(o)   pointer to that buffer
  PyErr_SetString(type, msg)   sets the pending exception; the function must then return NULL
"""
import os
import time

import z3

from engines import llk
from vp import api


def c_path():
    return os.path.join(api.REPO, "tornado", "speedups.c")


class Ctx:
    def __init__(self, data_len):
        """data_len: int (concrete length, concrete byte list) or None (symbolic length, array memory)"""
        self.mask_len = z3.BitVec("mask_len", 64)
        self.mask_arr = z3.Array("mask", z3.BitVecSort(64), z3.BitVecSort(8))
        self.parse_ok = z3.BitVec("parse_ret", 32)
        # symbolic ADDRESSES of the three buffers.  mask/data: any address (no alignment assumption - the statement
        # says "any memory alignment"); out: 8-aligned (CPython: PyObject_Malloc alignment >= 8 and
        # offsetof(PyBytesObject, ob_sval) == 32).  All: non-null page, no wrap-around.
        self.base_mask = z3.BitVec("addr_mask", 64)
        self.base_data = z3.BitVec("addr_data", 64)
        self.base_out = z3.BitVec("addr_out", 64)
        if data_len is None:
            self.data_len = z3.BitVec("data_len", 64)
            self.data_arr = z3.Array("data", z3.BitVecSort(64), z3.BitVecSort(8))
            self.data = None
        else:
            self.data_len = data_len
            self.data = [z3.BitVec("d%d" % i, 8) for i in range(data_len)]
        self.out_id = None

    def stubs(self):
        ctx = self

        def parse(ip, st, args):
            if len(args) != 6:
                raise llk.Unsupported("PyArg_ParseTuple arity %d" % len(args))
            fmt = st.mem[args[1].alloc]
            if getattr(fmt, "data", None) != b"s#s#\0":
                raise llk.Unsupported("PyArg_ParseTuple format %r" % (getattr(fmt, "data", None),))
            for a, ty in zip(args[2:], ("i8*", "i64", "i8*", "i64")):
                if st.mem[a.alloc].kind != "cell" or st.mem[a.alloc].ty != ty:
                    raise llk.Unsupported("out-parameter type %s" % st.mem[a.alloc].ty)
            fail = st.fork()
            fail.pc.append(ctx.parse_ok == 0)
            fail.exc = ("TypeError(from PyArg_ParseTuple)", None)
            ok = st
            ok.pc.append(ctx.parse_ok != 0)
            ok.pc.append(ctx.mask_len >= 0)
            for b in (ctx.base_mask, ctx.base_data):
                ok.pc.append(z3.And(z3.UGE(b, 4096), z3.ULE(b, 1 << 62)))
            mid = ip.new_alloc(ok, llk.Buf("mask", ctx.mask_len, array=ctx.mask_arr, readonly=True,
                                           base=ctx.base_mask), "mask")
            if ctx.data is None:
                ok.pc.append(ctx.data_len >= 0)
                did = ip.new_alloc(ok, llk.Buf("data", ctx.data_len, array=ctx.data_arr, readonly=True,
                                               base=ctx.base_data), "data")
                dl = ctx.data_len
            else:
                did = ip.new_alloc(ok, llk.Buf("data", ctx.data_len, bytes_=list(ctx.data), readonly=True,
                                               base=ctx.base_data), "data")
                dl = z3.BitVecVal(ctx.data_len, 64)
            ok.mem[args[2].alloc].val = llk.Ptr(mid)
            ok.mem[args[3].alloc].val = ctx.mask_len
            ok.mem[args[4].alloc].val = llk.Ptr(did)
            ok.mem[args[5].alloc].val = dl
            return [(fail, ctx.parse_ok), (ok, ctx.parse_ok)]

        def seterr(ip, st, args):
            exc = st.mem[args[0].alloc]
            msg = st.mem[args[1].alloc]
            st.exc = (exc.name, getattr(msg, "data", None))
            return [(st, None)]

        def fromsize(ip, st, args):
            if not (isinstance(args[0], llk.Ptr) and args[0].is_null()):
                raise llk.Unsupported("PyBytes_FromStringAndSize with a non-NULL source")
            n = z3.simplify(args[1])
            outs = []
            neg = z3.simplify(n < 0)
            if not z3.is_false(neg):
                s = st.fork()
                s.pc.append(neg)
                if ip.feasible(s.pc):
                    s.exc = ("@PyExc_SystemError", None)
                    outs.append((s, llk.NULL))
                st.pc.append(z3.Not(neg))
            nomem = st.fork()
            nomem.pc.append(z3.Bool("alloc_fails"))
            nomem.exc = ("@PyExc_MemoryError", None)
            outs.append((nomem, llk.NULL))
            st.pc.append(z3.Not(z3.Bool("alloc_fails")))
            st.pc.append(z3.And(z3.UGE(ctx.base_out, 4096), z3.ULE(ctx.base_out, 1 << 62), ctx.base_out & 7 == 0))
            if z3.is_bv_value(n):
                ln = n.as_long()
                buf = llk.Buf("out", ln, bytes_=[z3.BitVec("uninit%d" % i, 8) for i in range(ln)], base=ctx.base_out)
            else:
                buf = llk.Buf("out", n, array=z3.Array("uninit", z3.BitVecSort(64), z3.BitVecSort(8)),
                              base=ctx.base_out)
            bid = ip.new_alloc(st, buf, "out")
            oid = ip.new_alloc(st, llk.Opaque("bytes-object", data=bid), "bytesobj")
            ctx.out_id = bid
            outs.append((st, llk.Ptr(oid)))
            return outs

        def asstring(ip, st, args):
            o = st.mem.get(args[0].alloc)
            if o is None or o.kind != "opaque" or o.name != "bytes-object":
                raise llk.Unsupported("PyBytes_AsString of a non-bytes object")
            return [(st, llk.Ptr(o.data))]

        return {"_PyArg_ParseTuple_SizeT": parse, "PyArg_ParseTuple": parse, "PyErr_SetString": seterr,
                "PyBytes_FromStringAndSize": fromsize, "PyBytes_AsString": asstring}


class Checker:
    def __init__(self, timeout_ms=120000):
        self.obl = self.dis = self.queries = 0
        self.solver_s = 0.0
        self.models = []        # (name, model-as-inputs)
        self.inconclusive = []
        self.timeout = timeout_ms

    def prove(self, name, pc, goal):
        """pc => goal ;  returns 'unsat' | ('sat', model) | 'unknown'"""
        self.obl += 1
        g = z3.simplify(goal)
        if z3.is_true(g):
            # still ask the solver (cheap) so that every obligation is a solver verdict
            pass
        s = z3.Solver()
        s.set("timeout", self.timeout)
        s.add(*pc)
        s.add(z3.Not(goal))
        t0 = time.time()
        r = s.check()
        self.solver_s += time.time() - t0
        self.queries += 1
        if r == z3.unsat:
            self.dis += 1
            return "unsat"
        if r == z3.sat:
            return ("sat", s.model())
        self.inconclusive.append(name + ": unknown")
        return "unknown"


def spec_byte(ctx, i):
    return ctx.data[i] ^ z3.Select(ctx.mask_arr, z3.BitVecVal(i & 3, 64))


def model_inputs(ctx, m, L):
    ml = m.eval(ctx.mask_len, model_completion=True).as_signed_long()
    mlen = max(0, min(ml, 16))
    mask = bytes(m.eval(z3.Select(ctx.mask_arr, z3.BitVecVal(i, 64)), model_completion=True).as_long()
                 for i in range(mlen))
    data = bytes(m.eval(ctx.data[i], model_completion=True).as_long() for i in range(L))
    doff = m.eval(ctx.base_data, model_completion=True).as_long() % 8
    moff = m.eval(ctx.base_mask, model_completion=True).as_long() % 8
    return dict(mask=mask, data=data, mask_len_in_model=ml, data_addr_mod8=doff, mask_addr_mod8=moff)


def check_length(fn, L, chk, violations, replay_fn, stats):
    """all paths of websocket_mask for a concrete data_len = L (bytes and mask length symbolic)."""
    ctx = Ctx(L)
    ip = llk.Interp(fn, ctx.stubs())
    st = llk.State()
    self_obj = llk.Ptr(ip.new_alloc(st, llk.Opaque("self"), "self"))
    args_obj = llk.Ptr(ip.new_alloc(st, llk.Opaque("args"), "args"))
    leaves = ip.run(st, [self_obj, args_obj])
    stats["paths"] += len(leaves)
    stats["queries"] += ip.queries
    stats["solver_s"] += ip.solver_s
    stats["opcodes"] |= ip.opcodes
    kinds = set()
    for lf in leaves:
        # memory safety / UB obligations collected along the path
        for what, pc, cond in lf.oob:
            r = chk.prove("L=%d in-bounds: %s" % (L, what), pc, cond)
            if r != "unsat" and r != "unknown":
                inp = model_inputs(ctx, r[1], L)
                violations.append(("oob", "data_len=%d: %s" % (L, what), inp))
        ret_null = isinstance(lf.ret, llk.Ptr) and lf.ret.is_null()
        if ret_null:
            if lf.exc is None:
                violations.append(("null-without-exception", "data_len=%d: returns NULL with no exception set" % L,
                                   {}))
                continue
            kinds.add(lf.exc[0])
            if lf.exc[0] == "@PyExc_ValueError":
                # the rejection path must be exactly mask_len != 4
                r = chk.prove("L=%d ValueError path only when mask_len != 4" % L, lf.pc, ctx.mask_len != 4)
                if r != "unsat" and r != "unknown":
                    violations.append(("reject-valid", "data_len=%d: 4-byte mask rejected" % L,
                                       model_inputs(ctx, r[1], L)))
            continue
        # success leaf
        kinds.add("ok")
        if lf.exc is not None:
            violations.append(("exc-and-result", "data_len=%d: result returned with exception set" % L, {}))
        r = chk.prove("L=%d success only when mask_len == 4" % L, lf.pc, ctx.mask_len == 4)
        if r != "unsat" and r != "unknown":
            violations.append(("accept-invalid", "data_len=%d: mask of length != 4 accepted" % L,
                               model_inputs(ctx, r[1], L)))
            continue
        obj = lf.mem.get(lf.ret.alloc)
        if obj is None or obj.kind != "opaque" or obj.name != "bytes-object":
            violations.append(("wrong-object", "data_len=%d: returned object is not the new bytes object" % L, {}))
            continue
        out = lf.mem[obj.data]
        if out.bytes is None or len(out.bytes) != L:
            violations.append(("wrong-length", "data_len=%d: result buffer has length %r" % (L, out.size), {}))
            continue
        goal = z3.And(*[out.bytes[i] == spec_byte(ctx, i) for i in range(L)]) if L else z3.BoolVal(True)
        r = chk.prove("L=%d out[i] == data[i] ^ mask[i&3] for all i" % L, lf.pc, goal)
        if r != "unsat" and r != "unknown":
            violations.append(("wrong-bytes", "data_len=%d: output differs from data[i]^mask[i%%4]" % L,
                               model_inputs(ctx, r[1], L)))
    # every address alignment class of the payload (addr % 8 = 0..7) must be inhabited by a success path that was
    # checked above (vacuity guard for the "any alignment" half of the statement)
    classes = set()
    q0, s0 = ip.queries, ip.solver_s
    for lf in leaves:
        if isinstance(lf.ret, llk.Ptr) and not lf.ret.is_null():
            for k in range(8):
                if k not in classes and ip.feasible(list(lf.pc) + [ctx.base_data & 7 == k]):
                    classes.add(k)
    stats["queries"] += ip.queries - q0
    stats["solver_s"] += ip.solver_s - s0
    stats["classes"] = min(stats.get("classes", 8), len(classes))
    if "ok" in kinds and len(classes) != 8:
        violations.append(("alignment-class-missing", "data_len=%d: no successful path for payload address %% 8 in %r"
                           % (L, sorted(set(range(8)) - classes)), {}))
    # completeness of the path split: a 4-byte mask with successful parse/allocation must reach 'ok'
    if "ok" not in kinds:
        violations.append(("no-success-path", "data_len=%d: no path returns a result" % L, {}))
    if "@PyExc_ValueError" not in kinds:
        violations.append(("no-reject-path", "data_len=%d: no path raises ValueError (mask length not checked)" % L,
                           dict(mask=b"abc", data=bytes(L))))
    return kinds


def run(tier, seed):
    t_start = time.time()
    try:
        ll, cmd = llk.compile_ir(c_path())
        fn = llk.parse_function(ll, "websocket_mask")
    except llk.Unsupported as e:
        return dict(status="ERROR", message="IR: %s" % e)
    maxlen = 64 if tier == "quick" else 520
    chk = Checker()
    violations = []
    stats = dict(paths=0, queries=0, solver_s=0.0, opcodes=set())
    samples = []
    try:
        for L in range(0, maxlen + 1):
            before = chk.obl
            kinds = check_length(fn, L, chk, violations, None, stats)
            if L in (0, 1, 7, 8, 13, maxlen):
                samples.append(dict(data_len=L, paths=sorted(kinds), obligations=chk.obl - before))
            if violations:
                break
    except llk.Unsupported as e:
        return dict(status="ERROR", message="IR interpreter: unsupported construct: %s" % e)
    # ---- replay of solver models / boundary lengths on the freshly rebuilt extension (not the verdict)
    rep = replay(violations, seed)
    out_viol = []
    for kind, detail, inp in violations:
        rp = rep["violation_replays"].get(id(inp))
        if rp and rp.get("reproduced"):
            out_viol.append(dict(detail=detail + " :: " + rp["detail"], input={k: repr(v) for k, v in inp.items()},
                                 finding_key="C18-" + kind))
        else:
            chk.inconclusive.append("IR-level violation not reproduced on the rebuilt extension: %s %r (%s)" % (
                detail, inp, rp))
    if rep.get("mismatch"):
        out_viol.append(dict(detail="replay: compiled websocket_mask differs from the reference: %s" % rep["mismatch"],
                             input=rep["mismatch"], finding_key="C18-replay"))
    status = "VIOLATION" if out_viol else (
        "PROVED" if chk.dis == chk.obl and not chk.inconclusive else "BOUNDED")
    if violations and not out_viol:
        status = "ERROR"
    return dict(
        status=status, obligations=chk.obl, discharged=chk.dis, queries=chk.queries + stats["queries"],
        solver_s=round(chk.solver_s + stats["solver_s"], 2), samples=samples,
        message="; ".join(chk.inconclusive)[:1500] if status == "ERROR" else None,
        trusted_base=["clang-14 -O0 front end (C -> LLVM IR)", "engines/llk.py (IR interpreter over z3 bit-vectors)",
                      "CPython API contracts as stubbed (see harness/_native_c18.py docstring)"],
        assumptions=["IR generated this run by: " + cmd,
                     "x86-64 little-endian data layout; sizeof(size_t) >= 8 (clang folds the branch at -O0; the "
                     "32-bit configuration is not in the IR)",
                     "data_len 0..%d each as one query with all data bytes, the mask bytes and mask_len symbolic"
                     % maxlen,
                     "alignment: mask and payload live at SYMBOLIC 64-bit addresses without any alignment assumption "
                     "(output buffer: 8-aligned, as CPython's allocator and PyBytesObject layout guarantee); ptrtoint "
                     "results are terms over these addresses and branches on them fork paths, so every obligation holds "
                     "for every payload address %% 8 = 0..7 (each class is checked to be inhabited by a success path: "
                     "min classes per length = %d); multi-byte accesses are little-endian byte compositions; "
                     "strict-aliasing / unaligned-access legality of the C casts is outside the claim" % stats.get("classes", 0),
                     "replay (not the verdict): %s" % rep.get("summary")] +
                    ["inconclusive: " + x for x in chk.inconclusive],
        violations=out_viol, ir_paths=stats["paths"], alignment_classes_per_length=stats.get("classes"), opcodes=sorted(stats["opcodes"]),
        ir_lines=len(fn.text.splitlines()), replay=rep.get("summary"),
        wall_total=round(time.time() - t_start, 1))


def replay(violations, seed):
    """Rebuild from the CURRENT speedups.c (the .so in the repo may be stale): (a) the extension itself, called
    with bytes objects; (b) a driver (engines/llk.py DRIVER_C) in the same translation unit that hands the real
    websocket_mask read-only buffers placed at ANY address offset - bytes objects cannot be misaligned.  Both are
    compared with the spec / the Python reference on boundary lengths x 8 payload offsets x mask offsets, and the
    solver's models are replayed at the model's address alignment.  Replay only, never the verdict."""
    import random
    out = dict(violation_replays={}, mismatch=None, summary=None)
    try:
        mod, cmd = llk.build_extension(c_path())
        drv, dcmd = llk.build_driver(c_path())
    except llk.Unsupported as e:
        out["summary"] = "extension could not be rebuilt: %s" % e
        return out
    from tornado.util import _websocket_mask_python as ref

    def spec(mask, data):
        return bytes(b ^ mask[i & 3] for i, b in enumerate(data))

    for kind, detail, inp in violations:
        if "mask" not in inp:
            out["violation_replays"][id(inp)] = dict(reproduced=True, detail="structural (no input needed)")
            continue
        mask, data = inp["mask"], inp["data"]
        moff, doff = inp.get("mask_addr_mod8", 0), inp.get("data_addr_mod8", 0)
        try:
            got = drv.call(mask, data, moff, doff)
            res = "returned %r" % (got,)
            bad = len(mask) != 4 or got != spec(mask, data)
        except ValueError as e:
            res = "raised ValueError(%s)" % e
            bad = len(mask) == 4
        out["violation_replays"][id(inp)] = dict(
            reproduced=bool(bad) or kind == "oob",
            detail="rebuilt websocket_mask, payload at address %% 8 = %d, mask at %% 8 = %d, %s" % (doff, moff, res))
    rnd = random.Random(seed)
    n = 0
    lens = list(range(0, 41)) + [63, 64, 65, 127, 128, 129, 255, 256, 257, 4095, 4096]
    for L in lens:
        for off in range(8):
            for mask, moff in ((bytes(rnd.randrange(256) for _ in range(4)), 0), (b"\x00\xff\x80\x01", 3)):
                data = bytes(rnd.randrange(256) for _ in range(L))
                want = spec(mask, data)
                got = drv.call(mask, data, moff, off)
                n += 1
                if off == 0:
                    got2 = mod.websocket_mask(mask, data)      # plain bytes objects through the extension module
                    n += 1
                else:
                    got2 = want
                if got != want or got2 != want or want != ref(mask, data):
                    out["mismatch"] = dict(mask=repr(mask), data=repr(data), data_addr_mod8=off, mask_addr_mod8=moff,
                                           got=repr(got if got != want else got2))
                    out["summary"] = "mismatch after %d cases" % n
                    return out
    for bad in (b"", b"abc", b"abcde"):
        for f in (lambda: mod.websocket_mask(bad, b"xyz"), lambda: drv.call(bad, b"xyz", 1, 1)):
            try:
                f()
                out["mismatch"] = dict(mask=repr(bad), note="accepted")
            except ValueError:
                pass
            n += 1
    tmp = llk._TMP[-1] if llk._TMP else ""
    out["summary"] = ("rebuilt with `%s` and driver `%s`; %d concrete cases (lengths %s; payload address %% 8 = 0..7, "
                      "mask address %% 8 in {0,3} through the driver's read-only buffer type, plus bytes objects through "
                      "the module) equal spec and reference") % (
        cmd.replace(tmp, "<tmp>"), dcmd.replace(tmp, "<tmp>"), n, "0..40,63..65,127..129,255..257,4095,4096")
    return out
