"""C34 - Conditions and events wake exactly the right waiters.

Real code driven: tornado.locks.Condition (wait / notify / notify_all, _TimeoutGarbageCollector),
tornado.locks.Event (wait / set / clear / is_set), gen.with_timeout + concurrent.chain_future as
used by Event.wait(timeout), IOLoop.add_timeout - all on the virtual loop.
Oracle: sequential reference model (list of waits by arrival with state P/N/T/C).
"""
import datetime
from typing import List, Tuple

from vp.api import P, harness, in_shard, reached
from harness._sync import vinstall, conc3, tick_nodrain

from tornado import locks

NKC = 7   # condition op kinds
NKE = 11  # event op kinds (7..9 hooked waits, 10 in-iteration set)

_STUBS = ["VLoop/FakeAio virtual loop and clock (vp/env.py): timers fire in (deadline, insertion) "
          "order and never early; callbacks FIFO; a timer 'expiry' is an explicit advance step",
          "harness/_sync.vinstall: CancelledError escaping a callback is recorded like asyncio does"]


def _ops_ok(ops, nk, n):
    if len(ops) > n:
        return False
    for k, a in ops:
        if not (0 <= k < nk and 0 <= a <= 2):
            return False
    return True


# ----------------------------------------------------------------------------------------------
# Condition: full histories from the empty state

def pre_cond(gc: bool, ops: List[Tuple[int, int]]) -> bool:
    if not _ops_ok(ops, NKC, P.N):
        return False
    key = (ops[0][0] if len(ops) > 0 else 0) + NKC * (ops[1][0] if len(ops) > 1 else 0)
    return in_shard(key)


def _check_cond(c, futs, mstate, wake_log, expect_wake):
    for i, f in enumerate(futs):
        st = mstate[i]
        if st == 'P':
            assert not f.done(), "waiter %d is live in the model but its future is done" % i
        elif st == 'N':
            assert f.done() and not f.cancelled() and f.exception() is None and f.result() is True, \
                "waiter %d was notified in the model (arrival order) but future is %r" % (i, f)
        elif st == 'T':
            assert f.done() and not f.cancelled() and f.exception() is None and f.result() is False, \
                "waiter %d timed out in the model: must resolve False, is %r" % (i, f)
        else:
            assert f.cancelled(), "waiter %d should be cancelled" % i
    if expect_wake is not None:
        assert wake_log == expect_wake, "wake order %r != arrival order %r" % (wake_log, expect_wake)
    # structural: the live waiters are exactly the not-done members of the deque, in arrival order
    live_real = [w for w in c._waiters if not w.done()]
    live_model = [futs[i] for i in range(len(futs)) if mstate[i] == 'P']
    assert len(live_real) == len(live_model), "live waiters in deque != model"
    for x, y in zip(live_real, live_model):
        assert x is y, "deque order differs from arrival order"


def _cond_op(env, c, k, a, now, futs, mstate, mdead, wake_log):
    """Apply one op to the real Condition and the model; returns (now, expect_wake)."""
    expect = None
    if k <= 2:
        if k == 0:
            f = c.wait(); dl = None
        elif k == 1:
            f = c.wait(now + a); dl = now + a
        else:
            ca = conc3(a)
            f = c.wait(datetime.timedelta(seconds=ca)); dl = now + ca
        i = len(futs)
        f.add_done_callback(lambda _f, i=i: wake_log.append(i))
        futs.append(f); mstate.append('P'); mdead.append(dl)
    elif k == 3 or k == 4:
        live = [i for i in range(len(mstate)) if mstate[i] == 'P']
        del wake_log[:]
        if k == 3:
            c.notify(a)
            n = a if a < len(live) else len(live)
        else:
            c.notify_all()
            n = len(live)
        expect = live[:n]
        for i in expect:
            mstate[i] = 'N'
        if n > 0 and ('T' in mstate[:expect[-1]]):
            reached("notify_skips_timed_out")
        if 0 < n < len(live):
            reached("notify_partial")
    elif k == 5:
        ca = conc3(a)
        env.advance(ca)
        now = now + ca
        for i in range(len(mstate)):
            if mstate[i] == 'P' and mdead[i] is not None and mdead[i] <= now:
                mstate[i] = 'T'
                reached("timed_out_false")
    else:
        pend = [i for i in range(len(mstate)) if mstate[i] == 'P']
        if pend:
            j = pend[a % len(pend)]
            futs[j].cancel(); mstate[j] = 'C'
    env.run_ready()
    return now, expect


@harness(
    pre=pre_cond,
    quick=dict(N=3, timeout=100),
    thorough=dict(N=4, timeout=1500),
    nshards=dict(quick=7, thorough=49),
    reach=["notify_partial", "timed_out_false"],
    units=["locks.Condition.wait", "locks.Condition.notify", "locks.Condition.notify_all",
           "locks._TimeoutGarbageCollector._garbage_collect", "ioloop.IOLoop.add_timeout",
           "concurrent.future_set_result_unless_cancelled"],
    stubs=_STUBS + ["gc flag: _timeouts pre-set to 100 so the waiter garbage collector runs on the next timeout"],
    outside=["histories longer than N operations (see h_cond_step for deeper pre-states)",
             "notify(n) with n > 2 in this harness", "real threads / real clock"],
)
def h_cond(gc: bool, ops: List[Tuple[int, int]]):
    """ops: 0 wait() | 1 wait(now+a) | 2 wait(timedelta(a)) | 3 notify(a) | 4 notify_all |
    5 advance(a) | 6 cancel a-th live waiter."""
    with vinstall() as env:
        c = locks.Condition()
        if gc:
            c._timeouts = 100
        futs, mstate, mdead, wake_log = [], [], [], []
        now = env.v.now
        for k, a in ops:
            now, expect = _cond_op(env, c, k, a, now, futs, mstate, mdead, wake_log)
            _check_cond(c, futs, mstate, wake_log, expect)
        assert not env.v.exc_contexts, "exception escaped a callback: %r" % (env.v.exc_contexts,)
        # no timer residue: the only pending timers belong to live waiters with a deadline
        nt = sum(1 for i in range(len(mstate)) if mstate[i] == 'P' and mdead[i] is not None)
        assert len(env.v.pending_timers()) == nt, "timer residue after finished waits"


# ----------------------------------------------------------------------------------------------
# Condition: inductive step from a symbolic pre-state built through the real API

def pre_cond_step(gc: bool, wst: List[int], ops: List[Tuple[int, int]]) -> bool:
    if not (len(wst) <= 3 and _ops_ok(ops, NKC, P.M)):
        return False
    for w in wst:
        if not 0 <= w <= 4:
            return False
    for k, a in ops:
        if k == 3 and a > 3:
            return False
    return in_shard((wst[0] if len(wst) > 0 else 0) + 5 * (ops[0][0] if len(ops) > 0 else 0))


@harness(
    pre=pre_cond_step,
    quick=dict(M=1, timeout=100),
    thorough=dict(M=2, timeout=1500),
    nshards=dict(quick=5, thorough=35),
    reach=["notify_skips_timed_out", "notify_partial"],
    units=["locks.Condition.wait", "locks.Condition.notify", "locks.Condition.notify_all"],
    stubs=_STUBS + ["pre-state built by the real wait()/cancel()/timer expiry: waiter states 0 pending, "
                    "1 pending deadline now+2, 2 pending timedelta 3, 3 timed out, 4 cancelled"],
    outside=["more than 3 queued waiters in the pre-state", "more than M further operations"],
)
def h_cond_step(gc: bool, wst: List[int], ops: List[Tuple[int, int]]):
    with vinstall() as env:
        c = locks.Condition()
        if gc:
            c._timeouts = 100
        futs, mstate, mdead, wake_log = [], [], [], []
        now = env.v.now
        for w in wst:
            if w == 0:
                f = c.wait(); st, dl = 'P', None
            elif w == 1:
                f = c.wait(now + 2); st, dl = 'P', now + 2
            elif w == 2:
                f = c.wait(datetime.timedelta(seconds=3)); st, dl = 'P', now + 3
            elif w == 3:
                f = c.wait(now + 1); st, dl = 'T', now + 1
            else:
                f = c.wait(); f.cancel(); st, dl = 'C', None
            i = len(futs)
            f.add_done_callback(lambda _f, i=i: wake_log.append(i))
            futs.append(f); mstate.append(st); mdead.append(dl)
        env.advance(1)
        now = now + 1
        _check_cond(c, futs, mstate, wake_log, None)
        for k, a in ops:
            now, expect = _cond_op(env, c, k, a, now, futs, mstate, mdead, wake_log)
            _check_cond(c, futs, mstate, wake_log, expect)
        assert not env.v.exc_contexts, "exception escaped a callback: %r" % (env.v.exc_contexts,)
        nt = sum(1 for i in range(len(mstate)) if mstate[i] == 'P' and mdead[i] is not None)
        assert len(env.v.pending_timers()) == nt, "timer residue after finished waits"


# ----------------------------------------------------------------------------------------------
# Event
#
# Besides operations issued between loop iterations, two op families run *inside* an iteration:
#  * hooked waits (kinds 7..9): a timed wait whose returned future carries a done-callback that calls
#    ev.set() / ev.clear() / ev.wait() when it fires.  That callback runs in the same iteration as (and
#    right after) Event.wait's own "cancel the inner waiter" callback, i.e. while the cancelled inner
#    future is still registered in Event._waiters (its removal runs one iteration later).
#  * kind 10: the clock moves, every due timer callback runs, and ev.set() is called BEFORE the callbacks
#    those timers scheduled (real asyncio runs all due timers of an iteration before the callbacks they
#    enqueue): the outer futures already carry TimeoutError while the inner waiters are still pending.
# At most one hooked wait per history: Event.set() walks a *set* of futures, so the relative order of the
# done-callbacks of several simultaneously woken waits is unspecified (hash order) and two
# non-commuting hooks would have no defined outcome.

def pre_event(ops: List[Tuple[int, int]]) -> bool:
    if not _ops_ok(ops, NKE, P.N):
        return False
    nh = 0
    for k, a in ops:
        if 7 <= k <= 9:
            nh += 1
    if nh > 1:
        return False
    key = (ops[0][0] if len(ops) > 0 else 0) + NKE * (ops[1][0] if len(ops) > 1 else 0)
    return in_shard(key)


@harness(
    pre=pre_event,
    quick=dict(N=3, timeout=150, reach_timeout=90),
    thorough=dict(N=4, timeout=1800),
    nshards=dict(quick=11, thorough=121),
    reach=["wait_timed_out", "set_wakes_timed_wait", "wait_on_set_event", "set_inside_cancel_window",
           "hook_set_wakes_live_waiter", "set_between_timer_and_callbacks"],
    units=["locks.Event.wait", "locks.Event.set", "locks.Event.clear", "locks.Event.is_set",
           "gen.with_timeout", "concurrent.chain_future", "ioloop.IOLoop.add_timeout"],
    stubs=_STUBS + ["harness/_sync.tick_nodrain: advance the clock and run the due timer callbacks without "
                    "draining the callback queue (one real-loop iteration's timer phase)"],
    outside=["histories longer than N operations", "more than one hooked wait per history (callback order of "
             "simultaneously woken waits is hash order)", "real threads / real clock"],
)
def h_event(ops: List[Tuple[int, int]]):
    """ops: 0 wait() | 1 wait(now+a) | 2 wait(timedelta(a)) | 3 set | 4 clear | 5 advance(a) |
    6 cancel the a-th pending wait future (caller gives up) |
    7/8/9 wait(now+a) whose done-callback calls ev.set() / ev.clear() / ev.wait() |
    10 clock += a, due timers fire, ev.set() before their callbacks run, then drain."""
    with vinstall() as env:
        ev = locks.Event()
        st = {"flag": False, "hook": None, "act": 0, "fired": False, "merged": False}
        futs, mstate, mdead = [], [], []   # 'P' pending, 'S' completed, 'T' timed out, 'C' cancelled
        newf = []                          # the wait created inside the hook (act 3)
        now = env.v.now

        def m_set():
            st["flag"] = True
            for i in range(len(mstate)):
                if mstate[i] == 'P':
                    mstate[i] = 'S'
                    if mdead[i] is not None:
                        reached("set_wakes_timed_wait")

        def fire_hook(window=False):
            """the hooked wait just left 'P': its done-callback runs in this very iteration"""
            h = st["hook"]
            if h is None or st["fired"] or mstate[h] == 'P':
                return
            st["fired"] = True
            if st["act"] == 1:
                if window and mdead[h] is not None:
                    reached("set_inside_cancel_window")
                    if 'P' in mstate:
                        reached("hook_set_wakes_live_waiter")
                m_set()
            elif st["act"] == 2:
                st["flag"] = False
            else:
                mstate.append('S' if st["flag"] else 'P')
                mdead.append(None)

        for k, a in ops:
            if k <= 2 or 7 <= k <= 9:
                if k == 0:
                    f = ev.wait(); dl = None
                elif k == 2:
                    ca = conc3(a)
                    f = ev.wait(datetime.timedelta(seconds=ca)); dl = now + ca
                else:
                    f = ev.wait(now + a); dl = now + a
                futs.append(f)
                if st["flag"]:
                    reached("wait_on_set_event")
                    mstate.append('S'); mdead.append(None)
                else:
                    mstate.append('P'); mdead.append(dl)
                if k >= 7:
                    act = k - 6
                    st["hook"], st["act"] = len(futs) - 1, act

                    def cb(_f, act=act):
                        if act == 1:
                            ev.set()
                        elif act == 2:
                            ev.clear()
                        else:
                            newf.append(ev.wait())
                    f.add_done_callback(cb)
                    fire_hook()          # wait on an already-set event: the callback runs in the next drain
            elif k == 3:
                ev.set()
                m_set()
                fire_hook()
            elif k == 4:
                ev.clear()
                st["flag"] = False
            elif k == 5 or k == 10:
                ca = conc3(a)
                now = now + ca
                if k == 5:
                    env.advance(ca)
                    # timers fire in (deadline, arrival) order, the loop drains after each one: a hook
                    # that fires on an early expiry acts before the later timers
                    ordered = st["hook"] is not None and not st["fired"]
                    while True:
                        j = None
                        for i in range(len(mstate)):
                            if mstate[i] == 'P' and mdead[i] is not None and mdead[i] <= now:
                                if j is None or (ordered and mdead[i] < mdead[j]):
                                    j = i
                        if j is None:
                            break
                        mstate[j] = 'T'
                        reached("wait_timed_out")
                        fire_hook(True)
                else:
                    tick_nodrain(env.v, ca)
                    ev.set()
                    for i in range(len(mstate)):
                        if mstate[i] == 'P' and mdead[i] is not None and mdead[i] <= now:
                            mstate[i] = 'T'
                            reached("set_between_timer_and_callbacks")
                    m_set()
                    fire_hook()
            else:
                pend = [i for i in range(len(mstate)) if mstate[i] == 'P']
                if pend:
                    j = pend[a % len(pend)]
                    futs[j].cancel(); mstate[j] = 'C'
                    fire_hook(True)
            env.run_ready()
            if st["fired"] and st["act"] == 3 and not st["merged"]:
                st["merged"] = True
                assert len(newf) == 1, "the done-callback of the hooked wait must have run exactly once"
                # the model appended the hook-created wait when the hook fired; align the real list
                # the model appended its entry when the hook fired (always the last entry of that op)
                futs.append(newf[0])
            assert not env.v.exc_contexts, "exception escaped a callback (Event.set/clear/wait called from a " \
                "done-callback must not raise): %r" % (env.v.exc_contexts,)
            assert ev.is_set() == st["flag"]
            assert len(futs) == len(mstate)
            for i, f in enumerate(futs):
                s_ = mstate[i]
                if s_ == 'P':
                    assert not f.done(), "wait %d must still block (event not set since the call)" % i
                elif s_ == 'S':
                    assert f.done() and not f.cancelled() and f.exception() is None and f.result() is None, \
                        "wait %d must have completed (event set at/after the call, before its deadline): %r" % (i, f)
                elif s_ == 'T':
                    assert f.done() and not f.cancelled() and f.exception() is not None, \
                        "wait %d must have raised TimeoutError, is %r" % (i, f)
                    assert type(f.exception()).__name__ == "TimeoutError"
                else:
                    assert f.cancelled()
            # no residue: only pending waits are registered; only pending timed waits own a timer
            npend = sum(1 for x in mstate if x == 'P')
            assert len(ev._waiters) == npend, "Event._waiters residue: %d entries, %d pending waits" % (
                len(ev._waiters), npend)
            for w in ev._waiters:
                assert not w.done()
            nt = sum(1 for i in range(len(mstate)) if mstate[i] == 'P' and mdead[i] is not None)
            assert len(env.v.pending_timers()) == nt, "timer residue after finished waits"
