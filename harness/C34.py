"""C34 - Conditions and events wake exactly the right waiters.

Real code driven: tornado.locks.Condition (wait / notify / notify_all, _TimeoutGarbageCollector),
tornado.locks.Event (wait / set / clear / is_set), gen.with_timeout + concurrent.chain_future as
used by Event.wait(timeout), IOLoop.add_timeout - all on the virtual loop.
Oracle: sequential reference model (list of waits by arrival with state P/N/T/C).
"""
import datetime
from typing import List, Tuple

from vp.api import P, harness, in_shard, reached
from harness._sync import vinstall, conc3

from tornado import locks

NKC = 7   # condition op kinds
NKE = 7   # event op kinds

_STUBS = ["VLoop/FakeAio virtual loop and clock (vp/env.py): timers fire in (deadline, insertion) "
          "order and never early; callbacks FIFO; a timer 'expiry' is an explicit advance step",
          "harness/_sync.vinstall: CancelledError escaping a callback is recorded like asyncio does"]


def _ops_ok(ops, nk, n):
    if len(ops) > n:
        return False
    for k, a in ops:
        if not (0 <= k < nk and 0 <= a <= 2):
            return False
    return True


# ----------------------------------------------------------------------------------------------
# Condition: full histories from the empty state

def pre_cond(gc: bool, ops: List[Tuple[int, int]]) -> bool:
    if not _ops_ok(ops, NKC, P.N):
        return False
    key = (ops[0][0] if len(ops) > 0 else 0) + NKC * (ops[1][0] if len(ops) > 1 else 0)
    return in_shard(key)


def _check_cond(c, futs, mstate, wake_log, expect_wake):
    for i, f in enumerate(futs):
        st = mstate[i]
        if st == 'P':
            assert not f.done(), "waiter %d is live in the model but its future is done" % i
        elif st == 'N':
            assert f.done() and not f.cancelled() and f.exception() is None and f.result() is True, \
                "waiter %d was notified in the model (arrival order) but future is %r" % (i, f)
        elif st == 'T':
            assert f.done() and not f.cancelled() and f.exception() is None and f.result() is False, \
                "waiter %d timed out in the model: must resolve False, is %r" % (i, f)
        else:
            assert f.cancelled(), "waiter %d should be cancelled" % i
    if expect_wake is not None:
        assert wake_log == expect_wake, "wake order %r != arrival order %r" % (wake_log, expect_wake)
    # structural: the live waiters are exactly the not-done members of the deque, in arrival order
    live_real = [w for w in c._waiters if not w.done()]
    live_model = [futs[i] for i in range(len(futs)) if mstate[i] == 'P']
    assert len(live_real) == len(live_model), "live waiters in deque != model"
    for x, y in zip(live_real, live_model):
        assert x is y, "deque order differs from arrival order"


def _cond_op(env, c, k, a, now, futs, mstate, mdead, wake_log):
    """Apply one op to the real Condition and the model; returns (now, expect_wake)."""
    expect = None
    if k <= 2:
        if k == 0:
            f = c.wait(); dl = None
        elif k == 1:
            f = c.wait(now + a); dl = now + a
        else:
            ca = conc3(a)
            f = c.wait(datetime.timedelta(seconds=ca)); dl = now + ca
        i = len(futs)
        f.add_done_callback(lambda _f, i=i: wake_log.append(i))
        futs.append(f); mstate.append('P'); mdead.append(dl)
    elif k == 3 or k == 4:
        live = [i for i in range(len(mstate)) if mstate[i] == 'P']
        del wake_log[:]
        if k == 3:
            c.notify(a)
            n = a if a < len(live) else len(live)
        else:
            c.notify_all()
            n = len(live)
        expect = live[:n]
        for i in expect:
            mstate[i] = 'N'
        if n > 0 and ('T' in mstate[:expect[-1]]):
            reached("notify_skips_timed_out")
        if 0 < n < len(live):
            reached("notify_partial")
    elif k == 5:
        ca = conc3(a)
        env.advance(ca)
        now = now + ca
        for i in range(len(mstate)):
            if mstate[i] == 'P' and mdead[i] is not None and mdead[i] <= now:
                mstate[i] = 'T'
                reached("timed_out_false")
    else:
        pend = [i for i in range(len(mstate)) if mstate[i] == 'P']
        if pend:
            j = pend[a % len(pend)]
            futs[j].cancel(); mstate[j] = 'C'
    env.run_ready()
    return now, expect


@harness(
    pre=pre_cond,
    quick=dict(N=3, timeout=100),
    thorough=dict(N=4, timeout=1500),
    nshards=dict(quick=7, thorough=49),
    reach=["notify_partial", "timed_out_false"],
    units=["locks.Condition.wait", "locks.Condition.notify", "locks.Condition.notify_all",
           "locks._TimeoutGarbageCollector._garbage_collect", "ioloop.IOLoop.add_timeout",
           "concurrent.future_set_result_unless_cancelled"],
    stubs=_STUBS + ["gc flag: _timeouts pre-set to 100 so the waiter garbage collector runs on the next timeout"],
    outside=["histories longer than N operations (see h_cond_step for deeper pre-states)",
             "notify(n) with n > 2 in this harness", "real threads / real clock"],
)
def h_cond(gc: bool, ops: List[Tuple[int, int]]):
    """ops: 0 wait() | 1 wait(now+a) | 2 wait(timedelta(a)) | 3 notify(a) | 4 notify_all |
    5 advance(a) | 6 cancel a-th live waiter."""
    with vinstall() as env:
        c = locks.Condition()
        if gc:
            c._timeouts = 100
        futs, mstate, mdead, wake_log = [], [], [], []
        now = env.v.now
        for k, a in ops:
            now, expect = _cond_op(env, c, k, a, now, futs, mstate, mdead, wake_log)
            _check_cond(c, futs, mstate, wake_log, expect)
        assert not env.v.exc_contexts, "exception escaped a callback: %r" % (env.v.exc_contexts,)
        # no timer residue: the only pending timers belong to live waiters with a deadline
        nt = sum(1 for i in range(len(mstate)) if mstate[i] == 'P' and mdead[i] is not None)
        assert len(env.v.pending_timers()) == nt, "timer residue after finished waits"


# ----------------------------------------------------------------------------------------------
# Condition: inductive step from a symbolic pre-state built through the real API

def pre_cond_step(gc: bool, wst: List[int], ops: List[Tuple[int, int]]) -> bool:
    if not (len(wst) <= 3 and _ops_ok(ops, NKC, P.M)):
        return False
    for w in wst:
        if not 0 <= w <= 4:
            return False
    for k, a in ops:
        if k == 3 and a > 3:
            return False
    return in_shard((wst[0] if len(wst) > 0 else 0) + 5 * (ops[0][0] if len(ops) > 0 else 0))


@harness(
    pre=pre_cond_step,
    quick=dict(M=1, timeout=100),
    thorough=dict(M=2, timeout=1500),
    nshards=dict(quick=5, thorough=35),
    reach=["notify_skips_timed_out", "notify_partial"],
    units=["locks.Condition.wait", "locks.Condition.notify", "locks.Condition.notify_all"],
    stubs=_STUBS + ["pre-state built by the real wait()/cancel()/timer expiry: waiter states 0 pending, "
                    "1 pending deadline now+2, 2 pending timedelta 3, 3 timed out, 4 cancelled"],
    outside=["more than 3 queued waiters in the pre-state", "more than M further operations"],
)
def h_cond_step(gc: bool, wst: List[int], ops: List[Tuple[int, int]]):
    with vinstall() as env:
        c = locks.Condition()
        if gc:
            c._timeouts = 100
        futs, mstate, mdead, wake_log = [], [], [], []
        now = env.v.now
        for w in wst:
            if w == 0:
                f = c.wait(); st, dl = 'P', None
            elif w == 1:
                f = c.wait(now + 2); st, dl = 'P', now + 2
            elif w == 2:
                f = c.wait(datetime.timedelta(seconds=3)); st, dl = 'P', now + 3
            elif w == 3:
                f = c.wait(now + 1); st, dl = 'T', now + 1
            else:
                f = c.wait(); f.cancel(); st, dl = 'C', None
            i = len(futs)
            f.add_done_callback(lambda _f, i=i: wake_log.append(i))
            futs.append(f); mstate.append(st); mdead.append(dl)
        env.advance(1)
        now = now + 1
        _check_cond(c, futs, mstate, wake_log, None)
        for k, a in ops:
            now, expect = _cond_op(env, c, k, a, now, futs, mstate, mdead, wake_log)
            _check_cond(c, futs, mstate, wake_log, expect)
        assert not env.v.exc_contexts, "exception escaped a callback: %r" % (env.v.exc_contexts,)
        nt = sum(1 for i in range(len(mstate)) if mstate[i] == 'P' and mdead[i] is not None)
        assert len(env.v.pending_timers()) == nt, "timer residue after finished waits"


# ----------------------------------------------------------------------------------------------
# Event

def pre_event(ops: List[Tuple[int, int]]) -> bool:
    if not _ops_ok(ops, NKE, P.N):
        return False
    key = (ops[0][0] if len(ops) > 0 else 0) + NKE * (ops[1][0] if len(ops) > 1 else 0)
    return in_shard(key)


@harness(
    pre=pre_event,
    quick=dict(N=3, timeout=100),
    thorough=dict(N=4, timeout=1500),
    nshards=dict(quick=7, thorough=49),
    reach=["wait_timed_out", "set_wakes_timed_wait", "wait_on_set_event"],
    units=["locks.Event.wait", "locks.Event.set", "locks.Event.clear", "locks.Event.is_set",
           "gen.with_timeout", "concurrent.chain_future", "ioloop.IOLoop.add_timeout"],
    stubs=_STUBS,
    outside=["histories longer than N operations", "real threads / real clock"],
)
def h_event(ops: List[Tuple[int, int]]):
    """ops: 0 wait() | 1 wait(now+a) | 2 wait(timedelta(a)) | 3 set | 4 clear | 5 advance(a) |
    6 cancel the a-th pending wait future (caller gives up)."""
    with vinstall() as env:
        ev = locks.Event()
        flag = False
        futs, mstate, mdead = [], [], []   # 'P' pending, 'S' completed, 'T' timed out, 'C' cancelled
        now = env.v.now
        for k, a in ops:
            if k <= 2:
                if k == 0:
                    f = ev.wait(); dl = None
                elif k == 1:
                    f = ev.wait(now + a); dl = now + a
                else:
                    ca = conc3(a)
                    f = ev.wait(datetime.timedelta(seconds=ca)); dl = now + ca
                futs.append(f)
                if flag:
                    reached("wait_on_set_event")
                    mstate.append('S'); mdead.append(None)
                else:
                    mstate.append('P'); mdead.append(dl)
            elif k == 3:
                ev.set()
                flag = True
                for i in range(len(mstate)):
                    if mstate[i] == 'P':
                        mstate[i] = 'S'
                        if mdead[i] is not None:
                            reached("set_wakes_timed_wait")
            elif k == 4:
                ev.clear()
                flag = False
            elif k == 5:
                ca = conc3(a)
                env.advance(ca)
                now = now + ca
                for i in range(len(mstate)):
                    if mstate[i] == 'P' and mdead[i] is not None and mdead[i] <= now:
                        mstate[i] = 'T'
                        reached("wait_timed_out")
            else:
                pend = [i for i in range(len(mstate)) if mstate[i] == 'P']
                if pend:
                    j = pend[a % len(pend)]
                    futs[j].cancel(); mstate[j] = 'C'
            env.run_ready()
            assert ev.is_set() == flag
            for i, f in enumerate(futs):
                st = mstate[i]
                if st == 'P':
                    assert not f.done(), "wait %d must still block (event not set since the call)" % i
                elif st == 'S':
                    assert f.done() and not f.cancelled() and f.exception() is None and f.result() is None, \
                        "wait %d must have completed (event set at/after the call, before its deadline): %r" % (i, f)
                elif st == 'T':
                    assert f.done() and not f.cancelled() and f.exception() is not None, \
                        "wait %d must have raised TimeoutError, is %r" % (i, f)
                    assert type(f.exception()).__name__ == "TimeoutError"
                else:
                    assert f.cancelled()
            # no residue: only pending waits are registered; only pending timed waits own a timer
            npend = sum(1 for x in mstate if x == 'P')
            assert len(ev._waiters) == npend, "Event._waiters residue: %d entries, %d pending waits" % (
                len(ev._waiters), npend)
            for w in ev._waiters:
                assert not w.done()
            nt = sum(1 for i in range(len(mstate)) if mstate[i] == 'P' and mdead[i] is not None)
            assert len(env.v.pending_timers()) == nt, "timer residue after finished waits"
        assert not env.v.exc_contexts, "exception escaped a callback: %r" % (env.v.exc_contexts,)
