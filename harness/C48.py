"""C48 - OAuth request signatures match the OAuth 1.0 specification (RFC 5849 section 3.4).

Real code driven: tornado.auth._oauth_signature, _oauth10a_signature, _oauth_escape.
HMAC-SHA1 + base64 are replaced, inside the tornado.auth namespace, by an injective stand-in
(signature = key || 0x00 "|" 0x00 || text, unchanged by the "base64" step), so two signatures are equal
exactly when (key, signature base string) are equal; HMAC-SHA1 itself is not what the property is about.
Oracle: an independent RFC 5849 reference (3.4.1.1 base string, 3.4.1.2 base string URI, 3.4.1.3.2
parameter normalisation, 3.6 percent encoding, 3.4.2 key) written without urllib.
`urllib.parse.quote` realises its argument, so names/values/secrets are built from class representatives
(ALPHA) selected by symbolic indices; method and URL come from pools of case/port variants.
"""
from vp.api import P, harness, in_shard, reached

import tornado.auth as ta

# one representative per character class of RFC 5849 3.6
ALPHA = ("a", "~", "B", "=", "&", "%", " ", "+", "/", "é", "€")
NA = len(ALPHA)
VSMALL = ("a", "=", "é", " ", "%")       # values used when there are two parameters
METHODS = ("GET", "get", "pOsT")
URLS = ("http://example.com/p", "HTTP://Example.COM/p", "http://example.com:80/p", "https://example.com:443/p",
        "http://example.com:8080/p", "https://EXAMPLE.com:80/P", "http://example.com/a%20b/~c",
        "hTTps://Example.com:443/r/", "http://example.com:443/p")


# ------------------------------------------------------------------------------------------ reference
def ref_enc(s):
    out = ""
    for b in s.encode("utf-8"):
        if (48 <= b <= 57) or (65 <= b <= 90) or (97 <= b <= 122) or b in (45, 46, 95, 126):
            out += chr(b)
        else:
            out += "%" + "0123456789ABCDEF"[b >> 4] + "0123456789ABCDEF"[b & 15]
    return out


def ref_base_uri(url):
    i = url.index("://")
    scheme = url[:i].lower()
    rest = url[i + 3:]
    j = rest.find("/")
    authority, path = (rest, "/") if j < 0 else (rest[:j], rest[j:])
    for stop in "?#":
        if stop in path:
            path = path[:path.index(stop)]
    authority = authority.lower()
    if scheme == "http" and authority.endswith(":80"):
        authority = authority[:-3]
    if scheme == "https" and authority.endswith(":443"):
        authority = authority[:-4]
    return scheme + "://" + authority + path


def ref_signature(consumer_secret, token_secret, method, url, params):
    pairs = sorted((ref_enc(k).encode("ascii"), ref_enc(v).encode("ascii")) for k, v in params.items())
    norm = "&".join(k.decode() + "=" + v.decode() for k, v in pairs)
    base = "&".join([ref_enc(method.upper()), ref_enc(ref_base_uri(url)), ref_enc(norm)])
    key = ref_enc(consumer_secret) + "&" + ref_enc(token_secret or "")
    return key.encode("ascii") + b"\x00|\x00" + base.encode("ascii")


# ------------------------------------------------------------------------------------------ stand-ins
class _FakeHmacObj:
    def __init__(self, key, msg):
        self.v = bytes(key) + b"\x00|\x00" + bytes(msg)

    def digest(self):
        return self.v


class _FakeHmac:
    @staticmethod
    def new(key, msg=None, digestmod=None):
        return _FakeHmacObj(key, msg)


class _FakeBinascii:
    @staticmethod
    def b2a_base64(b):
        return b + b"\n"


def _sign(which, consumer_secret, token_secret, method, url, params):
    saved = (ta.hmac, ta.binascii)
    ta.hmac = _FakeHmac
    ta.binascii = _FakeBinascii
    try:
        fn = ta._oauth10a_signature if which else ta._oauth_signature
        token = None if token_secret is None else dict(key="tk", secret=token_secret)
        return fn(dict(key="ck", secret=consumer_secret), method, url, params, token)
    finally:
        ta.hmac, ta.binascii = saved


def _word(n, i, j):
    """n letters (0..2) of ALPHA, by index (branching makes them concrete)."""
    if n == 0:
        return ""
    if n == 1:
        return ALPHA[i]
    return ALPHA[i] + ALPHA[j]


def _compare(which, cs, ts, method, url, params):
    got = _sign(which, cs, ts, method, url, params)
    want = ref_signature(cs, ts, method, url, params)
    assert isinstance(got, bytes)
    gk, _, gb = got.partition(b"\x00|\x00")
    wk, _, wb = want.partition(b"\x00|\x00")
    assert gb == wb, "OAuth 1.0%s signature base string for %r %r %r is %r, RFC 5849 3.4.1 gives %r" % (
        "a" if which else "", method, url, params, gb, wb)
    assert gk == wk, "OAuth 1.0%s signing key for secrets %r/%r is %r, RFC 5849 3.4.2 gives %r" % (
        "a" if which else "", cs, ts, gk, wk)


_UNITS = ["auth._oauth_signature", "auth._oauth10a_signature", "auth._oauth_escape"]
_STUBS = ["tornado.auth.hmac / tornado.auth.binascii replaced by an injective stand-in (signature equality <=> "
          "equality of key and signature base string); HMAC-SHA1 and base64 themselves are trusted",
          "urllib.parse.quote realises: characters are class representatives " + repr(ALPHA) +
          " selected by symbolic index, so every path is concrete after the index branches (exhaustive over "
          "the stated finite domain)"]
_OUT = ["query strings inside the URL (callers pass them as parameters)", "RSA-SHA1 / PLAINTEXT",
        "characters outside the class representatives", "more than 2 parameters, names/values longer than 2"]


def classify(**kw):
    return "oauth_signature_rfc5849_deviation"


# ------------------------------------------------------------------------------------------ harnesses
def pre_params(which: bool, np: int, ln1: int, n1a: int, n1b: int, lv1: int, v1a: int, v1b: int,
               n2a: int, lv2: int, v2a: int) -> bool:
    if not (1 <= np <= 2 and 0 <= ln1 <= P.LN and 0 <= lv1 <= P.LV and 0 <= lv2 <= 1):
        return False
    for x in (n1a, n1b, v1a, v1b, n2a, v2a):
        if not 0 <= x < NA:
            return False
    if ln1 < 2 and n1b != 0 or ln1 < 1 and n1a != 0:
        return False
    if lv1 < 2 and v1b != 0 or lv1 < 1 and v1a != 0:
        return False
    if np == 1 and (n2a != 0 or lv2 != 0 or v2a != 0):
        return False
    if np == 2 and (ln1 > 1 or lv1 > 1 or v1a >= P.NV2 or v2a >= P.NV2):
        return False                      # two parameters: values from the first NV2 entries of VSMALL
    if lv2 == 0 and v2a != 0:
        return False
    return in_shard(n1a + NA * (np - 1))


@harness(
    pre=pre_params,
    quick=dict(LN=2, LV=1, NV2=2, timeout=120),
    thorough=dict(LN=2, LV=2, NV2=5, timeout=900),
    nshards=dict(quick=22, thorough=22),
    reach=["name_needs_escaping", "order_differs_after_encoding", "plain"],
    units=_UNITS, stubs=_STUBS, outside=_OUT, classify=classify,
)
def h_params(which: bool, np: int, ln1: int, n1a: int, n1b: int, lv1: int, v1a: int, v1b: int,
             n2a: int, lv2: int, v2a: int):
    """1 parameter (name <= LN, value <= LV letters) or 2 parameters (first: <= 1/<= 1 letters, second: a
    1-letter name; both values "" or one of NV2 representatives) plus the fixed parameter oauth_nonce."""
    n1 = _word(ln1, n1a, n1b)
    if np == 1:
        v1 = _word(lv1, v1a, v1b)
        params = {"oauth_nonce": "x1", n1: v1}
    else:
        # with two parameters the interesting dimension is the ORDER of the two names (all 12 x 11
        # combinations); the values are "" or one of the first NV2 entries of VSMALL
        v1 = VSMALL[v1a] if lv1 == 1 else ""
        params = {"oauth_nonce": "x1", n1: v1}
        n2 = ALPHA[n2a]
        params[n2] = VSMALL[v2a] if lv2 == 1 else ""
    names = [k for k in params]
    if any(ref_enc(k) != k for k in names):
        reached("name_needs_escaping")
    else:
        reached("plain")
    if sorted(names) != sorted(names, key=lambda k: ref_enc(k).encode()):
        reached("order_differs_after_encoding")
    _compare(which, "cs", "ts", "GET", URLS[0], params)


def pre_url(which: bool, mi: int, ui: int) -> bool:
    return 0 <= mi < len(METHODS) and 0 <= ui < len(URLS) and in_shard(ui)


@harness(
    pre=pre_url,
    quick=dict(timeout=60), thorough=dict(timeout=60), nshards=dict(quick=1, thorough=1),
    reach=["default_port", "mixed_case"],
    units=_UNITS, stubs=_STUBS + ["method and URL from the pools METHODS / URLS"], outside=_OUT, classify=classify,
)
def h_url(which: bool, mi: int, ui: int):
    url = URLS[ui]
    if ":80/" in url or ":443/" in url:
        reached("default_port")
    if url != url.lower():
        reached("mixed_case")
    _compare(which, "cs", "ts", METHODS[mi], url, {"oauth_nonce": "x1", "b": "1", "a": "2"})


def pre_key(which: bool, lc: int, ca: int, cb: int, tok: bool, lt: int, t_a: int, tb: int) -> bool:
    if not (0 <= lc <= 2 and 0 <= lt <= P.LT):
        return False
    for x in (ca, cb, t_a, tb):
        if not 0 <= x < NA:
            return False
    if lc < 2 and cb != 0 or lc < 1 and ca != 0:
        return False
    if lt < 2 and tb != 0 or lt < 1 and t_a != 0:
        return False
    if not tok and lt != 0:
        return False
    return in_shard(ca)


@harness(
    pre=pre_key,
    quick=dict(LT=1, timeout=120), thorough=dict(LT=2, timeout=900), nshards=dict(quick=11, thorough=11),
    reach=["secret_needs_escaping", "no_token"],
    units=_UNITS, stubs=_STUBS, outside=_OUT, classify=classify,
)
def h_key(which: bool, lc: int, ca: int, cb: int, tok: bool, lt: int, t_a: int, tb: int):
    """consumer secret <= 2 letters, token secret <= LT letters; token optional."""
    cs = _word(lc, ca, cb)
    ts = _word(lt, t_a, tb) if tok else None
    if ref_enc(cs) != cs or (ts is not None and ref_enc(ts) != ts):
        reached("secret_needs_escaping")
    if ts is None:
        reached("no_token")
    _compare(which, cs, ts, "GET", URLS[0], {"oauth_nonce": "x1"})


TECHNIQUE = ("CrossHair symbolic execution of the real signature functions against an RFC 5849 reference; all "
             "choices (characters, lengths, method, URL variant, token presence, 1.0 vs 1.0a) are solver variables "
             "indexing finite pools")
ASSUMPTIONS = ["HMAC-SHA1/base64 trusted (replaced by an injective stand-in)"]
