"""C09 - HTTP client completes each fetch once, honours max_clients, redirects safely.

Harnesses
  h_admission        real SimpleAsyncHTTPClient.fetch / fetch_impl / _process_queue / _release_fetch /
                     _remove_timeout / _on_timeout on the virtual loop; the connection class is replaced
                     by a recording fake that completes when the symbolic schedule says so.
  h_redirect_rewrite real _HTTPConnection.finish + _should_follow_redirect: follow decision, redirect
                     budget, method / body rewriting (status x method x max_redirects x follow_redirects).
  h_redirect_origin  real _HTTPConnection.finish: credential stripping on a cross-origin redirect, with
                     the request headers built by a symbolic add/set history (multi-valued Cookie /
                     Authorization reachable) and original URL / Location chosen from pools.
Oracles are the statement of C09 (sequential admission model; RFC 9110 15.4 rewriting; "different scheme,
host or port never carries Authorization, Cookie, URL credentials").
"""
import urllib.parse
from typing import List, Tuple

from vp.api import P, harness, in_shard, reached
from vp.env import install

from tornado import httputil
from tornado.concurrent import Future
from tornado.httpclient import HTTPRequest, HTTPResponse, _RequestProxy
from tornado.simple_httpclient import SimpleAsyncHTTPClient, _HTTPConnection


class _FakeTimeModule:
    """Stub: wall clock for tornado.httpclient / simple_httpclient (HTTPRequest.start_time, only used to
    report request_time).  A constant, so that no float (CrossHair models time.time() as a symbolic float)
    enters the run."""

    @staticmethod
    def time():
        return 1000


class _no_wallclock:
    def __enter__(self):
        import tornado.httpclient as hc
        import tornado.simple_httpclient as sc
        self.saved = (hc.time, sc.time)
        hc.time = sc.time = _FakeTimeModule
        return self

    def __exit__(self, *a):
        import tornado.httpclient as hc
        import tornado.simple_httpclient as sc
        hc.time, sc.time = self.saved
        return False


# =================================================================================================
# 1. admission state machine
# =================================================================================================

class _FakeConn:
    """Stub boundary: 'a connection that at some later, scheduler-chosen moment calls
    release_callback and final_callback exactly once' (what _HTTPConnection._run_callback does)."""

    def __init__(self, client, request, release_callback, final_callback, *rest):
        self.client, self.request = client, request
        self.release_callback, self.final_callback = release_callback, final_callback
        client.started.append(request.request.tag)
        client.conns.append(self)
        if len(client.active) > client.max_clients:
            client.over = True

    def complete(self):
        rel, self.release_callback = self.release_callback, None
        rel()
        fin, self.final_callback = self.final_callback, None
        self.client.io_loop.add_callback(fin, HTTPResponse(self.request, 200))


class _Client(SimpleAsyncHTTPClient):
    def _connection_class(self):
        return _FakeConn


def pre_adm(mc: int, ops: List[Tuple[int, int, int]]) -> bool:
    if not (1 <= mc <= 2 and len(ops) <= P.N):
        return False
    for k, a, b in ops:
        if not (0 <= k <= 2 and 0 <= a <= 2 and 0 <= b <= P.T):
            return False
    k0 = ops[0][0] if len(ops) > 0 else 0
    k1 = ops[1][0] if len(ops) > 1 else 0
    k2 = ops[2][0] if len(ops) > 2 else 0
    return in_shard((mc - 1) + 2 * (k0 + 3 * (k1 + 3 * k2)))


@harness(
    pre=pre_adm,
    quick=dict(N=4, T=1, timeout=200, reach_timeout=60),
    thorough=dict(N=5, T=2, timeout=1400, reach_timeout=120),
    nshards=dict(quick=54, thorough=54),
    reach=["queued_timeout_599", "queued_started_after_release", "two_active"],
    units=["httpclient.AsyncHTTPClient.fetch", "simple_httpclient.SimpleAsyncHTTPClient.fetch_impl",
           "simple_httpclient.SimpleAsyncHTTPClient._process_queue",
           "simple_httpclient.SimpleAsyncHTTPClient._handle_request",
           "simple_httpclient.SimpleAsyncHTTPClient._release_fetch",
           "simple_httpclient.SimpleAsyncHTTPClient._remove_timeout",
           "simple_httpclient.SimpleAsyncHTTPClient._on_timeout", "ioloop.IOLoop.add_timeout"],
    stubs=["VLoop/FakeAio virtual loop and clock (vp/env.py)", "wall clock time.time() of httpclient replaced by a constant",
           "_connection_class() returns a recording fake connection: it completes only when the schedule says "
           "so, by calling release_callback then scheduling final_callback (as _HTTPConnection._run_callback)",
           "HTTPRequest.start_time (wall clock, only used for the reported request_time) set to the virtual "
           "clock so no float enters the arithmetic",
           "op = (0 submit fetch with connect_timeout a, request_timeout b (0 = none, integers) | 1 complete "
           "the a-th running connection | 2 advance the clock by 1 or 2 ticks)"],
    outside=["the real _HTTPConnection (its exactly-once completion is C08/C09-redirect territory; connection "
             "racing is C10)", "more than N operations, max_clients > 2, connect_timeout > 2 ticks, request_timeout > T ticks (quick 1, thorough 2)", "curl_httpclient"],
)
def h_admission(mc: int, ops: List[Tuple[int, int, int]]):
    with install() as env, _no_wallclock():
        client = _Client(force_instance=True, max_clients=mc)
        client.started, client.conns, client.over = [], [], False
        now = env.v.now
        futs = []          # real fetch futures by submission order
        # reference model
        m_active = []      # tags running
        m_queue = []       # [tag, deadline or None] waiting, FIFO
        m_started = []     # expected start order
        m_state = []       # per fetch: 'Q' queued, 'A' active, 'D' done-200, 'T' timed out in queue

        def m_fill():
            while m_queue and len(m_active) < mc:
                tag = m_queue.pop(0)[0]
                m_active.append(tag)
                m_started.append(tag)
                m_state[tag] = 'A'

        for k, a, b in ops:
            if k == 0:
                tag = len(futs)
                req = HTTPRequest("http://h.example/%d" % tag, connect_timeout=a, request_timeout=b)
                req.tag = tag
                req.start_time = now
                futs.append(client.fetch(req))
                if len(m_active) < mc:
                    m_state.append('A')
                    m_active.append(tag)
                    m_started.append(tag)
                else:
                    # (evaluated only when the request is queued: keeps a, b unexamined otherwise)
                    t = a if (b == 0 or (a != 0 and a <= b)) else b      # smaller non-zero timeout, 0 = none
                    m_state.append('Q')
                    m_queue.append([tag, (now + t) if t != 0 else None])
            elif k == 1:
                if not m_active:
                    return
                i = 0 if (len(m_active) == 1 or a == 0) else 1
                if i == 1:
                    reached("two_active")
                tag = m_active.pop(i)
                conn = [c for c in client.conns if c.request.request.tag == tag and c.final_callback is not None]
                assert len(conn) == 1, "request %d should be running exactly once (model), real: %d" % (tag, len(conn))
                conn[0].complete()
                m_state[tag] = 'D'
                had_q = len(m_queue) > 0
                m_fill()
                if had_q:
                    reached("queued_started_after_release")
            else:
                d = 1 if a == 0 else 2
                env.advance(d)
                now = now + d
                for ent in list(m_queue):
                    if ent[1] is not None and ent[1] <= now:
                        m_queue.remove(ent)
                        m_state[ent[0]] = 'T'
            env.run_ready()
            # ---------------- compare
            assert not env.v.exc_contexts, "exception escaped a callback (double completion?): %r" % (
                env.v.exc_contexts,)
            assert not client.over and len(client.active) <= mc, "more than max_clients requests in progress"
            assert client.started == m_started, "start order %r, expected submission order %r" % (
                client.started, m_started)
            assert len(client.active) == len(m_active)
            assert len(client.waiting) == len(m_queue), "waiting table out of sync with the queue"
            for tag, f in enumerate(futs):
                st = m_state[tag]
                if st == 'Q' or st == 'A':
                    assert not f.done(), "fetch %d completed although it is still %s" % (tag, st)
                elif st == 'D':
                    assert f.done() and f.exception() is None and f.result().code == 200, \
                        "fetch %d should have completed with its response" % tag
                else:
                    reached("queued_timeout_599")
                    assert f.done() and f.exception() is not None and getattr(f.exception(), "code", 0) == 599, \
                        "fetch %d should have failed with a 599 queue timeout" % tag
                    assert tag not in client.started, "a request that timed out in the queue was started"
        # ---- drain: complete everything; every fetch must end up completed exactly once
        for _ in range(len(futs) + 1):
            for c in list(client.conns):
                if c.final_callback is not None:
                    c.complete()
            env.run_ready()
        assert not env.v.exc_contexts, "exception escaped a callback: %r" % (env.v.exc_contexts,)
        for tag, f in enumerate(futs):
            assert f.done(), "fetch %d never completed" % tag
            if m_state[tag] == 'T':
                assert tag not in client.started
        assert len(client.active) == 0 and len(client.waiting) == 0
        assert sorted(client.started) == client.started, "requests started out of submission order"
        assert len(set(client.started)) == len(client.started), "a request was started twice"


# =================================================================================================
# 2. redirects
# =================================================================================================

class _RecClient:
    def __init__(self):
        self.fetched = []      # (request, raise_error, future)

    def fetch(self, request, raise_error=True, **kw):
        f = Future()
        self.fetched.append((request, raise_error, f))
        return f


class _Stream:
    def __init__(self):
        self.closed_n = 0

    def close(self):
        self.closed_n += 1


def _build_conn(env, url, method, headers, body, follow, maxred, status, location, auth_user=None):
    """An _HTTPConnection in the state run()+headers_received() leave it in when the final
    response headers are in: request headers completed as run() does (Host, Connection, and the
    Authorization header derived from URL / auth_username credentials), response code / headers set."""
    req = HTTPRequest(url, method=method, headers=headers, body=body, follow_redirects=follow,
                      max_redirects=maxred, auth_username=auth_user,
                      auth_password=("pw" if auth_user else None))
    req.headers = httputil.HTTPHeaders(req.headers)      # AsyncHTTPClient.fetch does this copy
    proxy = _RequestProxy(req, dict(HTTPRequest._DEFAULTS))
    conn = _HTTPConnection.__new__(_HTTPConnection)
    conn.io_loop = env.loop
    conn.start_time = env.v.now
    conn.start_wall_time = 0
    rec = _RecClient()
    conn.client = rec
    conn.request = proxy
    conn.released = 0
    conn.finals = []

    def release():
        conn.released += 1

    conn.release_callback = release
    conn.final_callback = conn.finals.append
    conn.chunks = []
    conn._timeout = None
    conn._decompressor = None
    conn.stream = _Stream()
    # ---- what run() adds to the request headers before the request is sent
    sp = urllib.parse.urlsplit(url)
    h = proxy.headers
    if "Connection" not in h:
        h["Connection"] = "close"
    if "Host" not in h:
        h["Host"] = sp.netloc.rpartition("@")[-1]
    if sp.username is not None or auth_user is not None:
        h["Authorization"] = "Basic dTpw"
    if body is not None:
        h["Content-Length"] = str(len(body))
    if method == "POST" and "Content-Type" not in h:
        h["Content-Type"] = "application/x-www-form-urlencoded"
    # ---- response
    conn.code = status
    conn.reason = "X"
    rh = httputil.HTTPHeaders()
    if location is not None:
        rh.add("Location", location)
    conn.headers = rh
    return conn, rec


_STATUS = (200, 301, 302, 303, 307, 308, 304, 300)
_METHODS = ("GET", "HEAD", "POST", "PUT", "DELETE")


def pre_rw(si: int, mi: int, follow: bool, maxred: int, has_loc: bool, cross: bool) -> bool:
    return 0 <= si < len(_STATUS) and 0 <= mi < len(_METHODS) and 0 <= maxred <= 2


@harness(
    pre=pre_rw,
    quick=dict(timeout=200, reach_timeout=60),
    thorough=dict(timeout=600, reach_timeout=60),
    nshards=1,
    reach=["followed_rewritten_to_get", "followed_method_kept", "budget_exhausted_not_followed"],
    units=["simple_httpclient._HTTPConnection.finish", "simple_httpclient._HTTPConnection._should_follow_redirect",
           "simple_httpclient._HTTPConnection._run_callback", "simple_httpclient._HTTPConnection._release",
           "httputil.HTTPHeaders.copy", "httputil.HTTPHeaders.__delitem__"],
    stubs=["_HTTPConnection built with __new__ + fields in the state run()/headers_received() leave it "
           "(helper _build_conn: Host / Connection / Authorization-from-credentials / Content-Length / "
           "Content-Type added as run() does)", "client.fetch replaced by a recorder returning a pending Future",
           "status and method chosen by symbolic index from pools (200,301,302,303,307,308,304,300) x "
           "(GET,HEAD,POST,PUT,DELETE); max_redirects symbolic 0..2"],
    outside=["the wire exchange that produced the response (C08)", "redirect chains longer than one hop are covered "
             "inductively: each hop is one finish() with the decremented budget"],
)
def h_redirect_rewrite(si: int, mi: int, follow: bool, maxred: int, has_loc: bool, cross: bool):
    status, method = _STATUS[si], _METHODS[mi]
    with install() as env, _no_wallclock():
        body = b"payload" if method in ("POST", "PUT") else None
        hdrs = httputil.HTTPHeaders()
        hdrs.add("X-Keep", "1")
        if body is not None:
            hdrs.add("Content-Type", "text/plain")
            hdrs.add("Content-Encoding", "identity")
        loc = ("http://b.example/next" if cross else "/next") if has_loc else None
        conn, rec = _build_conn(env, "http://a.example/start", method, hdrs, body, follow, maxred, status, loc)
        conn.finish()
        env.run_ready()
        assert not env.v.exc_contexts, env.v.exc_contexts
        want_follow = follow and status in (301, 302, 303, 307, 308) and maxred > 0 and has_loc
        assert conn.released == 1, "the connection slot must be released exactly once"
        assert conn.stream.closed_n >= 1
        if not want_follow:
            if follow and status in (301, 302, 303, 307, 308) and has_loc:
                reached("budget_exhausted_not_followed")
            assert rec.fetched == [], "redirect followed although not allowed / budget exhausted"
            assert len(conn.finals) == 1 and conn.finals[0].code == status, "fetch must complete once with the response"
            return
        assert len(rec.fetched) == 1, "redirect must be followed exactly once"
        assert conn.finals == [], "fetch completed before the redirected request finished"
        nr, raise_error, fut = rec.fetched[0]
        assert nr.max_redirects == maxred - 1, "redirect budget must decrease by one per hop"
        to_get = (status == 303 and method != "HEAD") or (status in (301, 302) and method == "POST")
        if to_get:
            reached("followed_rewritten_to_get")
            assert nr.method == "GET" and nr.body is None, "must become a body-less GET"
            for hn in ("Content-Length", "Content-Type", "Content-Encoding", "Transfer-Encoding"):
                assert nr.headers.get_list(hn) == [], "%s must not be sent with the rewritten GET" % hn
        else:
            reached("followed_method_kept")
            assert nr.method == method and nr.body == body, "method and body must be preserved"
        assert nr.headers.get_list("X-Keep") == ["1"]
        assert nr.url == ("http://b.example/next" if cross else "http://a.example/next")
        # exactly-once completion through the redirected fetch
        resp = HTTPResponse(nr, 200)
        fut.set_result(resp)
        env.run_ready()
        assert conn.finals == [resp], "fetch must complete exactly once with the final response"
        assert not env.v.exc_contexts, env.v.exc_contexts


# ---- cross-origin stripping -------------------------------------------------------------------------

_ORIG = (
    "http://a.example/p",
    "http://u:p@a.example/p",
    "https://a.example/p",
    "http://a.example:8080/p",
    "http://u:p@a.example:8080/p",
    "https://u:p@a.example/p",
)
_LOC = (
    "/q",
    "q?x=1",
    "//a.example/q",
    "//b.example/q",
    "http://a.example/q",
    "https://a.example/q",
    "http://a.example:8080/q",
    "http://a.example:80/q",
    "http://A.EXAMPLE/q",
    "http://u:p@a.example/q",
    "http://u:p@b.example/q",
    "http://a.example@b.example/q",
    "http://b.example#@a.example/q",
    "http://b.example\\@a.example/q",
    "http:q",
    "https:/q",
    "//u:p@b.example:8080/q",
)
_NAMES = ("Authorization", "Cookie", "cookie", "AUTHORIZATION")


def _origin(url):
    """(scheme, host, port) a client connects to for `url` - same derivation as
    _HTTPConnection.run (urlsplit, userinfo dropped, default port by scheme), host lower-cased."""
    sp = urllib.parse.urlsplit(url)
    netloc = sp.netloc.rpartition("@")[-1]
    host, port = httputil.split_host_and_port(netloc)
    if port is None:
        port = 443 if sp.scheme == "https" else 80
    return (sp.scheme, host.lower(), port)


def pre_or(oi: int, li: int, hist: List[Tuple[bool, int]], authkw: bool, post303: bool) -> bool:
    if not (0 <= li < P.NL and in_shard(li) and 0 <= oi < P.NO and len(hist) <= P.H):
        return False
    if post303 and not P.P303:
        return False
    for is_add, ni in hist:
        if not 0 <= ni < P.NN:
            return False
    return True


def classify_or(oi, li, hist, authkw, post303):
    """Known-finding shape: a header that was given more than one value (HTTPHeaders.add) survives."""
    cnt = {}
    for is_add, ni in hist:
        n = _NAMES[ni].lower()
        cnt[n] = (cnt.get(n, 0) + 1) if is_add else 1
    if any(v > 1 for v in cnt.values()):
        return "F1-multivalued-header-not-deleted"
    return None


def pre_or_x(oi: int, li: int, hist: List[Tuple[bool, int]], authkw: bool, post303: bool) -> bool:
    if not pre_or(oi, li, hist, authkw, post303):
        return False
    if P.exclude:
        c = classify_or(oi, li, hist, authkw, post303)
        if c is not None and c in P.exclude:
            return False
    return True


@harness(
    pre=pre_or_x,
    quick=dict(NO=4, NL=17, NN=2, H=2, P303=0, timeout=150, reach_timeout=90),
    thorough=dict(NO=6, NL=17, NN=4, H=3, P303=1, timeout=1400, reach_timeout=120),
    nshards=dict(quick=17, thorough=17),
    reach=["cross_origin_stripped", "same_origin_followed", "multi_valued_cookie_cross_origin",
           "userinfo_in_location"],
    classify=classify_or,
    units=["simple_httpclient._HTTPConnection.finish", "simple_httpclient._HTTPConnection._should_follow_redirect",
           "httputil.HTTPHeaders.add", "httputil.HTTPHeaders.__setitem__", "httputil.HTTPHeaders.copy",
           "httputil.HTTPHeaders.__delitem__", "httputil.HTTPHeaders.get_list", "httpclient.HTTPRequest.__init__",
           "urllib.parse.urljoin/urlsplit/urlunsplit (stdlib, executed)"],
    stubs=["_HTTPConnection built with __new__ + fields (see h_redirect_rewrite)",
           "client.fetch replaced by a recorder",
           "original URL and Location chosen by symbolic index from pools (6 x 17: relative, scheme-relative, "
           "other scheme/host/port, upper-case host, explicit default port, userinfo, '@' / '#@' / '\\\\@' "
           "confusion forms); request headers built by a symbolic history of <= H add/set operations over "
           "Authorization / Cookie (case variants in thorough)",
           "oracle's notion of origin = (scheme, lower-cased host, effective port) derived as _HTTPConnection.run "
           "derives its connect target (stdlib urlsplit is trusted)"],
    outside=["free-form Location strings outside the pool", "cookie path/domain policy (the statement is about "
             "scheme/host/port only)", "header values (irrelevant to the code paths, concrete)"],
)
def h_redirect_origin(oi: int, li: int, hist: List[Tuple[bool, int]], authkw: bool, post303: bool):
    url, loc = _ORIG[oi], _LOC[li]
    with install() as env, _no_wallclock():
        hdrs = httputil.HTTPHeaders()
        n = 0
        for is_add, ni in hist:
            n += 1
            if is_add:
                hdrs.add(_NAMES[ni], "v%d" % n)
            else:
                hdrs[_NAMES[ni]] = "v%d" % n
        method, status, body = ("POST", 303, b"x") if post303 else ("GET", 302, None)
        conn, rec = _build_conn(env, url, method, hdrs, body, True, 3, status, loc,
                                auth_user=("kwuser" if authkw else None))
        sent = conn.request.headers
        had_secret = bool(sent.get_list("Authorization") or sent.get_list("Cookie"))
        conn.finish()
        env.run_ready()
        assert not env.v.exc_contexts, env.v.exc_contexts
        assert len(rec.fetched) == 1 and conn.finals == [] and conn.released == 1
        nr = rec.fetched[0][0]
        target = urllib.parse.urljoin(url, loc)
        src_o, dst_o = _origin(url), _origin(nr.url)
        assert dst_o == _origin(target), "redirect goes to %r, Location says %r" % (nr.url, target)
        if "@" in loc:
            reached("userinfo_in_location")
        if src_o != dst_o:
            if had_secret:
                reached("cross_origin_stripped")
            if len(sent.get_list("Cookie")) > 1:
                reached("multi_valued_cookie_cross_origin")
            assert nr.headers.get_list("Authorization") == [], \
                "Authorization %r sent to a different origin %r" % (nr.headers.get_list("Authorization"), dst_o)
            assert nr.headers.get_list("Cookie") == [], \
                "Cookie %r sent to a different origin %r" % (nr.headers.get_list("Cookie"), dst_o)
            assert nr.auth_username is None and nr.auth_password is None, "auth_username/password carried over"
            nsp = urllib.parse.urlsplit(nr.url)
            assert nsp.username is None and nsp.password is None and "@" not in nsp.netloc, \
                "URL credentials carried to a different origin: %r" % (nr.url,)
        else:
            reached("same_origin_followed")
        assert nr.headers.get_list("Host") == [], "stale Host header carried to the redirected request"
