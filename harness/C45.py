"""C45 - Log formatting never fails and cannot forge log entries.

Real code driven: tornado.log.LogFormatter.__init__(color=False) / format, tornado.log._safe_unicode, on real
logging.LogRecord objects (record.getMessage, Formatter.formatTime / formatException are the stdlib's).
`%` formatting realises its operands, so the record content is assembled from pools selected by symbolic
indices (message templates, argument tuples, "special" characters spliced at a symbolic position, exception
text); every path is concrete after the index branches, and CONFIRMED is exhaustive over the stated finite
domain only: this is a bounded search over message shapes, not a claim about all strings.

Oracle (statement): format() returns a str, never raises, and every newline character ("\\n") in the result
is followed by indentation (four spaces).  Decision: judged strictly on "\\n", as the statement says "newline
character"; other line-boundary characters of str.splitlines ("\\r", "\\x0b", "\\x0c", "\\x1c"-"\\x1e",
"\\x85", "\\u2028", "\\u2029") are in the pools (the formatter must not fail on them) but the code passes them
through unindented and that is NOT counted as a violation (observation for the report).
"""
import logging
import sys

from vp.api import P, harness, in_shard, reached

import tornado.log as tlog

MSGS = ("hello", "%s and %s", "%d items", "100% done", "%(a)s", "line1\nline2", "a\r\nb", b"bytes msg",
        b"\xe9 latin1 %s", b"nl\nin bytes", "%", "%z bad", "trailing\n", "", "\n[E 000000 00:00:00 x:1] forged", "%s")
ARGS = ((), ("x",), ("x", "y"), (1, 2, 3), ({"a": "v\nw"},), (b"\xff\n",), ("with\nnewline",), (None,))
SPECIAL = ("\n", "\r\n", "\r", "%", "\x85", "\u2028", "\ud800", "\x00", "\x0b", "\x0c", "\x1c", "\x1e",
           "\u2029", "a", "\xe9", "\n\n")
LEVELS = (logging.DEBUG, logging.INFO, logging.WARNING, logging.ERROR, logging.CRITICAL, 5)
EXC_TEXT = ("boom", "", "two\nlines", "caf\xe9", "100%", "x\r\ny")

_FMT = tlog.LogFormatter(color=False)


def _splice(base, pos, ins):
    if isinstance(base, bytes):
        ins = ins.encode("utf-8", "surrogatepass")
    if pos >= 2 or pos > len(base):
        pos = len(base)                   # positions: 0 = front, 1 = after the first unit, 2 = end
    return base[:pos] + ins + base[pos:]


def _check(out):
    assert isinstance(out, str), "format() returned %r" % (type(out),)
    i = out.find("\n")
    while i >= 0:
        assert out[i + 1:i + 5] == "    ", \
            "newline at offset %d of the formatted record is not followed by indentation: %r" % (i, out)
        i = out.find("\n", i + 1)


class _FixedTime:
    """logging.time stand-in while a LogRecord is built: CrossHair makes time.time() a solver float, and
    LogRecord.__init__ branches on it (path explosion unrelated to the property)."""
    import time as _t
    strftime, localtime, gmtime = _t.strftime, _t.localtime, _t.gmtime

    @staticmethod
    def time():
        return 1600000000.25

    @staticmethod
    def time_ns():
        return 1600000000250000000


def _record(level, msg, args, exc_info):
    saved = logging.time
    logging.time = _FixedTime
    try:
        return logging.LogRecord("tornado.test", level, "/srv/app/handler.py", 42, msg, args, exc_info)
    finally:
        logging.time = saved


def _format(record):
    # LogRecord.__init__ reads time.time() (a solver float under CrossHair): pin the timestamp fields
    record.created = 1600000000.25
    record.msecs = 250.0
    record.relativeCreated = 1000.0
    try:
        return _FMT.format(record)
    except Exception as e:
        raise AssertionError("LogFormatter.format raised %r for msg=%r args=%r" % (e, record.msg, record.args))


def pre_msg(mi: int, ai: int, nsp: int, ci: int, pos: int, where: int, li: int) -> bool:
    if not (0 <= mi < len(MSGS) and 0 <= ai < len(ARGS) and 0 <= nsp <= 1 and 0 <= ci < P.NC
            and 0 <= pos <= 2 and 0 <= where <= 1 and 0 <= li < len(LEVELS)):
        return False
    if nsp == 0 and (ci != 0 or pos != 0 or where != 0):
        return False
    if li != 1 and not (mi == 0 and nsp == 0):
        return False                              # level only varies on the plain message
    return in_shard(mi)


@harness(
    pre=pre_msg,
    quick=dict(NC=8, timeout=100),
    thorough=dict(NC=16, timeout=600),
    nshards=dict(quick=16, thorough=16),
    reach=["bad_message", "newline_in_message", "bytes_message", "plain"],
    units=["log.LogFormatter.format", "log._safe_unicode", "log.LogFormatter.__init__"],
    stubs=["logging.time pinned while the LogRecord is built (CrossHair models time.time() as a solver float)",
           "color=False (no curses); record fields other than msg/args/level are fixed; message, args and the "
           "spliced character come from the pools MSGS / ARGS / SPECIAL by symbolic index, the splice position is "
           "symbolic in {front, after the first unit, end}; the first NC entries of SPECIAL; `where` puts the splice into the message or into the first "
           "str/bytes argument"],
    outside=["strings outside the pools (the `%` operator realises, so free strings cannot be kept symbolic)",
             "custom fmt strings, color=True", "line-boundary characters other than \\n (see module docstring)"],
)
def h_message(mi: int, ai: int, nsp: int, ci: int, pos: int, where: int, li: int):
    msg = MSGS[mi]
    args = ARGS[ai]
    if nsp == 1:
        ins = SPECIAL[ci]
        if where == 0:
            msg = _splice(msg, pos, ins)
        else:
            if not args or not isinstance(args[0], (str, bytes)):
                return
            args = (_splice(args[0], pos, ins),) + tuple(args[1:])
    record = _record(LEVELS[li], msg, args, None)
    out = _format(record)
    if "Bad message" in out:
        reached("bad_message")
    elif isinstance(msg, bytes):
        reached("bytes_message")
    elif "\n" in out:
        reached("newline_in_message")
    else:
        reached("plain")
    _check(out)


# ---------------------------------------------------------------------------------------------------
# getMessage() raising every kind of exception: KeyError ('%(missing)s' with a dict), OverflowError ('%c'),
# TypeError/ValueError (mismatches), and whatever a hostile argument / message object raises from __str__.
class Boom(Exception):
    pass


EXC_POOL = (
    lambda: KeyError("k"), lambda: IndexError("i"), lambda: OverflowError("o"),
    lambda: UnicodeDecodeError("utf-8", b"\xff", 0, 1, "bad"), lambda: UnicodeEncodeError("ascii", "\xe9", 0, 1, "bad"),
    lambda: RuntimeError("r\nforged"), lambda: ZeroDivisionError(), lambda: Boom("custom\n"), lambda: StopIteration(),
    lambda: MemoryError(), lambda: RecursionError("deep"), lambda: OSError(5, "io"), lambda: AssertionError("a"),
    lambda: LookupError(), lambda: AttributeError("x"), lambda: NotImplementedError(),
)


class Hostile:
    """str() raises the chosen exception; repr() is harmless unless `repr_raises`."""

    def __init__(self, make, repr_raises=False):
        self.make = make
        self.repr_raises = repr_raises

    def __str__(self):
        raise self.make()

    def __repr__(self):
        if self.repr_raises:
            raise self.make()
        return "<Hostile>"


MSGS2 = ("%(missing)s", "%c", "%s", "%s and %(a)s", "%d", "%s %s", "%(a)s\n%(b)s", "%*d", "%c%c", None)  # None: hostile msg
N_ARGS2 = 10


def _args2(ai, make, rr):
    if ai == 0:
        return ({"a": 1},)
    if ai == 1:
        return (0x110000,)
    if ai == 2:
        return (-1,)
    if ai == 3:
        return (Hostile(make, rr),)
    if ai == 4:
        return (Hostile(make, rr), "x")
    if ai == 5:
        return ()
    if ai == 6:
        return ({"a": Hostile(make, rr), "b": "x"},)
    if ai == 7:
        return ("x",)
    if ai == 8:
        return (1 << 70, 65)
    return ("\ud800", 0x10ffff)


def pre_gm(mi: int, ai: int, xi: int, rr: bool, li: int) -> bool:
    if not (0 <= mi < len(MSGS2) and 0 <= ai < N_ARGS2 and 0 <= xi < len(EXC_POOL) and 0 <= li <= 1):
        return False
    hostile = ai in (3, 4, 6) or mi == len(MSGS2) - 1
    if not hostile and (xi != 0 or rr):
        return False
    if rr and not P.HOSTILE_REPR:
        return False
    return in_shard(mi)


@harness(
    pre=pre_gm,
    quick=dict(HOSTILE_REPR=1, timeout=100),
    thorough=dict(HOSTILE_REPR=1, timeout=300),
    nshards=dict(quick=5, thorough=5),
    reach=["getmessage_KeyError", "getmessage_OverflowError", "getmessage_IndexError", "getmessage_UnicodeError",
           "getmessage_TypeError", "getmessage_custom", "getmessage_ok"],
    units=["log.LogFormatter.format", "log._safe_unicode"],
    stubs=["logging.time pinned while the LogRecord is built",
           "message template from MSGS2 (or a hostile message object), argument tuple from 10 shapes, the exception "
           "class a hostile __str__ raises from a pool of 16 classes - all by symbolic index",
           "HOSTILE_REPR=0: objects whose __repr__ ALSO raises are outside the pools: on the current tree the "
           "fallback f\"Bad message ({e!r}): {record.__dict__!r}\" then raises out of format() (reported finding; "
           "set HOSTILE_REPR=1 once the fallback is guarded)"],
    outside=["BaseException subclasses that are not Exception (KeyboardInterrupt, SystemExit)",
             "objects whose __repr__ raises (see stubs)"],
)
def h_getmessage_raises(mi: int, ai: int, xi: int, rr: bool, li: int):
    make = EXC_POOL[xi]
    msg = MSGS2[mi]
    if msg is None:
        msg = Hostile(make, rr)
    args = _args2(ai, make, rr)
    record = _record(logging.INFO if li == 0 else logging.ERROR, msg, args, None)
    try:
        record.getMessage()
        raised = None
    except Exception as e:
        raised = e
    if raised is None:
        reached("getmessage_ok")
    elif isinstance(raised, KeyError):
        reached("getmessage_KeyError")
    elif isinstance(raised, OverflowError):
        reached("getmessage_OverflowError")
    elif isinstance(raised, IndexError):
        reached("getmessage_IndexError")
    elif isinstance(raised, UnicodeError):
        reached("getmessage_UnicodeError")
    elif isinstance(raised, TypeError):
        reached("getmessage_TypeError")
    elif isinstance(raised, Boom):
        reached("getmessage_custom")
    out = _format(record)
    _check(out)
    if raised is not None:
        assert "Bad message" in out, "getMessage() raised %r but the record was formatted as %r" % (raised, out)


def pre_exc(mi: int, ei: int, nsp: int, ci: int, cj: int, pos: int, pre_text: int) -> bool:
    if not (0 <= mi <= 3 and 0 <= ei < len(EXC_TEXT) and 0 <= nsp <= P.NX and 0 <= ci < P.NC
            and 0 <= cj < P.NC and 0 <= pos <= 2 and 0 <= pre_text <= 2):
        return False
    if nsp < 2 and cj != 0 or nsp < 1 and (ci != 0 or pos != 0):
        return False
    return in_shard(ei)


@harness(
    pre=pre_exc,
    quick=dict(NX=1, NC=8, timeout=120),
    thorough=dict(NX=2, NC=16, timeout=900),
    nshards=dict(quick=6, thorough=6),
    reach=["exc_text_newline", "exc_text_bytes_preset", "exc_plain"],
    units=["log.LogFormatter.format", "log._safe_unicode"],
    stubs=["exception text = EXC_TEXT[ei] with <= NX of the first NC SPECIAL characters spliced at a symbolic position; the "
           "exception is really raised and caught so the traceback is genuine; pre_text 1/2 presets "
           "record.exc_text (str / with a non-UTF-8-looking escape) as a caching handler would"],
    outside=["exceptions whose __str__ raises", "chained exceptions"],
)
def h_exc_info(mi: int, ei: int, nsp: int, ci: int, cj: int, pos: int, pre_text: int):
    text = EXC_TEXT[ei]
    if nsp >= 1:
        text = _splice(text, pos, SPECIAL[ci])
    if nsp == 2:
        text = _splice(text, 2, SPECIAL[cj])
    try:
        raise ValueError(text)
    except ValueError as e:
        info = (type(e), e, e.__traceback__)
    msg = ("request failed", "multi\nline", "%s", b"bytes\n")[mi]
    record = _record(logging.ERROR, msg, (), info)
    if pre_text == 1:
        record.exc_text = "Traceback (cached)\n  " + text
        reached("exc_text_bytes_preset")
    elif pre_text == 2:
        record.exc_text = "Traceback (cached)\nValueError: \\xff " + text + "\n"
    out = _format(record)
    if "\n" in text:
        reached("exc_text_newline")
    else:
        reached("exc_plain")
    if pre_text != 0:
        # (with pre_text == 0 the stdlib's formatException returns "" under CrossHair's tracer - an engine
        # artefact that does not replay - so the exception lines are only exercised through preset exc_text)
        assert "ValueError" in out or "Traceback" in out, "exception information missing from %r" % (out,)
    _check(out)


TECHNIQUE = ("CrossHair symbolic execution of the real LogFormatter.format over records assembled from pools by "
             "symbolic indices and splice positions (bounded search: `%` realises)")
ASSUMPTIONS = ["see per-harness stubs"]
