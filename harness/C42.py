"""C42 - Subprocess exit is reported once with the right status.

Real code driven: tornado.process.Subprocess.set_exit_callback / wait_for_exit / _cleanup /
_try_cleanup_process / _set_returncode on instances built with __new__ (no real Popen), on the virtual
loop, with os.waitpid scripted and SIGCHLD delivery = an explicit call of the registered handler
(Subprocess._cleanup).
Oracle (the statement): for a registered child that has exited, the exit callback has run exactly once
with WEXITSTATUS (or -WTERMSIG), wait_for_exit's future resolves with that value or raises
CalledProcessError(returncode=value) iff value != 0 and raise_error; nothing is reported before the exit.
"""
from subprocess import CalledProcessError
from typing import List

from vp.api import P, harness, in_shard, reached
from vp.env import outcome
from harness._sync import (FakeModule, vinstall, validate_wmodels, w_exitstatus, w_ifexited,
                           w_ifsignaled, w_termsig)

import os as _os
from tornado import process
from tornado.process import Subprocess

_bad = validate_wmodels()
assert not _bad, "wait-status models disagree with os.W* on %r" % (_bad[:5],)

_STUBS = ["Subprocess objects built with __new__ + the attributes __init__ would set (io_loop, proc with pid/"
          "returncode, pid, _exit_callback=None, returncode=None): no real Popen / pipes",
          "os.waitpid(pid, WNOHANG) scripted: (0,0) while running, (pid,status) once after the exit, then "
          "ChildProcessError; nobody else reaps the child",
          "Subprocess._initialized forced True (no real signal handler); a SIGCHLD delivery = calling "
          "Subprocess._cleanup; at least one delivery happens after the last exit (pending signals are delivered)",
          "os.WIFSIGNALED/WTERMSIG/WEXITSTATUS/WIFEXITED replaced by arithmetic models of the Linux encoding, "
          "validated against the real functions on all 65536 statuses at import",
          "statuses waitpid can return without WUNTRACED: exited or killed by signal 1..126 (+core flag)",
          "VLoop/FakeAio virtual loop (vp/env.py)"]


class _Proc:
    def __init__(self, pid):
        self.pid = pid
        self.returncode = None


class Kern:
    def __init__(self):
        self.state = {}        # pid -> 'run' | ['zombie', status] | 'reaped'
        self.sigpending = False

    def waitpid(self, pid, flags):
        assert flags == _os.WNOHANG
        st = self.state.get(pid)
        if st is None or st == 'reaped':
            raise ChildProcessError()
        if st == 'run':
            return 0, 0
        self.state[pid] = 'reaped'
        return pid, st[1]

    def exit(self, pid, status):
        self.state[pid] = ['zombie', status]
        self.sigpending = True


class Rig:
    def __init__(self, env):
        self.env = env
        self.kern = Kern()
        self.saved = (process.os, Subprocess._initialized, Subprocess._waiting)
        process.os = FakeModule(_os, waitpid=self.kern.waitpid, WIFSIGNALED=w_ifsignaled,
                                WTERMSIG=w_termsig, WEXITSTATUS=w_exitstatus, WIFEXITED=w_ifexited)
        Subprocess._initialized = True
        Subprocess._waiting = {}
        self.subs = {}
        self.calls = {}
        self.futs = {}
        self.exited = {}
        self.style = {}

    def close(self):
        process.os, Subprocess._initialized, Subprocess._waiting = self.saved

    def spawn(self, pid):
        sp = Subprocess.__new__(Subprocess)
        sp.io_loop = self.env.loop
        sp.proc = _Proc(pid)
        sp.pid = pid
        sp._exit_callback = None
        sp.returncode = None
        self.kern.state[pid] = 'run'
        self.subs[pid] = sp
        self.calls[pid] = []
        return sp

    def register(self, pid, style):
        """style 0 set_exit_callback | 1 wait_for_exit(raise_error=True) | 2 wait_for_exit(False)"""
        sp = self.subs[pid]
        self.style[pid] = style
        if style == 0:
            calls = self.calls[pid]
            sp.set_exit_callback(lambda ret: calls.append(ret))
        elif style == 1:
            self.futs[pid] = sp.wait_for_exit()
        else:
            self.futs[pid] = sp.wait_for_exit(raise_error=False)

    def child_exits(self, pid, status):
        self.exited[pid] = status
        self.kern.exit(pid, status)

    def sigchld(self):
        self.kern.sigpending = False
        before = len(Subprocess._waiting)
        Subprocess._cleanup()
        if before - len(Subprocess._waiting) == 2:
            reached("both_reaped_by_one_sigchld")

    def settle(self):
        if self.kern.sigpending:
            self.sigchld()
        self.env.run_ready()

    def check(self, final):
        for pid, sp in self.subs.items():
            reg = pid in self.style
            ex = pid in self.exited
            if not (reg and ex):
                assert self.calls[pid] == [], "exit callback ran for a child that has not exited/registered"
                if pid in self.futs:
                    assert not self.futs[pid].done(), "wait_for_exit resolved before the child exited"
                if reg:
                    assert pid in Subprocess._waiting
                continue
            if not final:
                # reported at most once, and only with the right value
                assert len(self.calls[pid]) <= 1, "exit callback ran more than once"
                continue
            s = self.exited[pid]
            if w_ifsignaled(s):
                code = -w_termsig(s)
                reached("killed_by_signal")
            else:
                code = w_exitstatus(s)
            st = self.style[pid]
            if st == 0:
                assert len(self.calls[pid]) == 1, "exit callback must run exactly once, ran %d times" % len(
                    self.calls[pid])
                assert self.calls[pid][0] == code, "callback got %r, status says %r" % (self.calls[pid][0], code)
            else:
                f = self.futs[pid]
                assert f.done(), "wait_for_exit future still pending after the exit was delivered"
                if st == 1 and code != 0:
                    reached("called_process_error")
                    e = f.exception()
                    assert isinstance(e, CalledProcessError), "non-zero status with raise_error: got %r" % (
                        outcome(f),)
                    assert e.returncode == code, "CalledProcessError.returncode %r != %r" % (e.returncode, code)
                else:
                    assert f.exception() is None, "wait_for_exit must not raise here: %r" % (outcome(f),)
                    assert f.result() == code, "wait_for_exit gave %r, status says %r" % (f.result(), code)
            assert sp.returncode == code and sp.proc.returncode == code
            assert pid not in Subprocess._waiting, "finished child left in Subprocess._waiting"


def _status_ok(s):
    return 0 <= s <= 65535 and s % 128 != 127


# ----------------------------------------------------------------------------------------------
def pre_one(status: int, style: int, ops: List[int]) -> bool:
    if not (_status_ok(status) and 0 <= style <= 2 and len(ops) <= P.N):
        return False
    for k in ops:
        if not 0 <= k <= 3:
            return False
    return in_shard(style + 3 * (ops[0] if len(ops) > 0 else 0))


@harness(
    pre=pre_one,
    quick=dict(N=4, timeout=120, reach_timeout=90),
    thorough=dict(N=7, timeout=1200),
    nshards=dict(quick=12, thorough=12),
    reach=["exit_before_registration", "exit_after_registration", "killed_by_signal", "called_process_error",
           "repeated_sigchld"],
    units=["process.Subprocess.set_exit_callback", "process.Subprocess.wait_for_exit",
           "process.Subprocess._cleanup", "process.Subprocess._try_cleanup_process",
           "process.Subprocess._set_returncode", "process.Subprocess.initialize"],
    stubs=_STUBS,
    outside=["real processes and real SIGCHLD delivery", "another party reaping the child (Popen.wait/poll)",
             "registering two callbacks on one Subprocess", "stopped/continued statuses", "Windows"],
)
def h_one(status: int, style: int, ops: List[int]):
    """ops: 0 the child exits with `status` | 1 register (style) | 2 SIGCHLD delivered | 3 loop iteration."""
    with vinstall() as env:
        rig = Rig(env)
        try:
            rig.spawn(100)
            nsig = 0
            for k in ops:
                if k == 0:
                    if 100 in rig.exited:
                        continue
                    rig.child_exits(100, status)
                    if 100 in rig.style:
                        reached("exit_after_registration")
                elif k == 1:
                    if 100 in rig.style:
                        continue
                    if 100 in rig.exited:
                        reached("exit_before_registration")
                    rig.register(100, style)
                elif k == 2:
                    rig.sigchld()
                    if 100 in rig.exited and 100 in rig.style:
                        nsig += 1
                        if nsig >= 2:
                            reached("repeated_sigchld")
                else:
                    env.run_ready()
                rig.check(False)
            rig.settle()
            rig.check(True)
            rig.sigchld()          # a spurious late delivery must not report again
            env.run_ready()
            rig.check(True)
            assert not env.v.exc_contexts, "exception escaped a callback: %r" % (env.v.exc_contexts,)
        finally:
            rig.close()


# ----------------------------------------------------------------------------------------------
def pre_two(sa: int, sb: int, style_a: int, lazy: bool, ops: List[int]) -> bool:
    if not (_status_ok(sa) and _status_ok(sb) and 0 <= style_a <= 1 and len(ops) <= P.N):
        return False
    for k in ops:
        if not 0 <= k <= 4:
            return False
    return in_shard(ops[0] if len(ops) > 0 else 0)


@harness(
    pre=pre_two,
    quick=dict(N=4, timeout=120),
    thorough=dict(N=6, timeout=1200),
    nshards=dict(quick=5, thorough=5),
    reach=["both_reaped_by_one_sigchld", "two_children_distinct_codes"],
    units=["process.Subprocess.set_exit_callback", "process.Subprocess.wait_for_exit",
           "process.Subprocess._cleanup", "process.Subprocess._try_cleanup_process",
           "process.Subprocess._set_returncode"],
    stubs=_STUBS + ["the loop runs after every event unless `lazy` (then only at the end)"],
    outside=["more than 2 concurrent children", "real processes and real SIGCHLD delivery"],
)
def h_two(sa: int, sb: int, style_a: int, lazy: bool, ops: List[int]):
    """ops: 0 child A exits | 1 child B exits | 2 register A (style_a: callback / wait_for_exit) |
    3 register B (callback) | 4 SIGCHLD delivered (coalesced: one delivery for all exits so far)."""
    with vinstall() as env:
        rig = Rig(env)
        try:
            rig.spawn(100)
            rig.spawn(101)
            for k in ops:
                if k == 0:
                    if 100 in rig.exited:
                        continue
                    rig.child_exits(100, sa)
                elif k == 1:
                    if 101 in rig.exited:
                        continue
                    rig.child_exits(101, sb)
                elif k == 2:
                    if 100 in rig.style:
                        continue
                    rig.register(100, style_a)
                elif k == 3:
                    if 101 in rig.style:
                        continue
                    rig.register(101, 0)
                else:
                    rig.sigchld()
                if not lazy:
                    env.run_ready()
                rig.check(False)
            rig.settle()
            rig.check(True)
            if len(rig.exited) == 2 and len(rig.style) == 2 and style_a == 0:
                if rig.calls[100][0] != rig.calls[101][0]:
                    reached("two_children_distinct_codes")
            assert not env.v.exc_contexts, "exception escaped a callback: %r" % (env.v.exc_contexts,)
        finally:
            rig.close()
