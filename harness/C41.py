"""C41 - The multi-process supervisor restarts exactly the failed workers.

Real code driven: tornado.process.fork_processes (parent loop AND the child return path) and task_id,
with fork / wait / W* / sys.exit / _reseed_random / cpu_count / gen_log replaced by a scripted kernel.
Oracle (the statement): ids 0..n-1 are each started once, in order; a worker is restarted with the same
id exactly when it exited abnormally (signal, or exit status != 0); once the number of restarts exceeds
the budget the supervisor fails (RuntimeError); it exits 0 only after every worker exited normally;
events for unknown pids are ignored; the process on the child side of fork number j gets the id the
model assigned to fork j, as return value and as task_id().
"""
from typing import List, Tuple

from vp.api import P, harness, in_shard, reached
from harness._sync import (FakeModule, NullLog, validate_wmodels, w_exitstatus, w_ifexited,
                           w_ifsignaled, w_termsig)

import os as _os
import sys as _sys
from tornado import process

_bad = validate_wmodels()          # 65536 concrete comparisons with the real os.W* (~30 ms), stub validation
assert not _bad, "wait-status models disagree with os.W* on %r" % (_bad[:5],)


class _Blocked(Exception):
    """os.wait() called with no scripted event left: the supervisor would block here"""


class _Exit(Exception):
    def __init__(self, code):
        Exception.__init__(self, code)
        self.code = code


class Kernel:
    """Scripted kernel: fork() hands out pids 100,101,.. (or 0 at fork number `child_at`);
    wait() replays the exit history: event (who, status) = the who-th live child (in start order)
    exits with `status`; who >= number of live children = a pid the supervisor never started."""

    def __init__(self, events, child_at):
        self.events = list(events)
        self.child_at = child_at
        self.trace = []          # 'F' fork, 'W' wait, 'X0' exit(0)
        self.nfork = 0
        self.live = []           # pids alive, in start order
        self.delivered = []      # (pid or None, status) as handed to the supervisor

    def fork(self):
        j = self.nfork
        self.nfork += 1
        self.trace.append('F')
        if j == self.child_at:
            return 0
        pid = 100 + j
        self.live.append(pid)
        return pid

    def wait(self):
        self.trace.append('W')
        if not self.events:
            raise _Blocked()
        who, status = self.events.pop(0)
        pid = None
        for j in range(len(self.live)):       # concrete index by branching
            if who == j:
                pid = self.live[j]
        if pid is None:
            self.delivered.append((None, status))
            return 9999, status
        self.live.remove(pid)
        self.delivered.append((pid, status))
        return pid, status

    def exit(self, code=0):
        self.trace.append('X%d' % code)
        raise _Exit(code)


class Patched:
    def __init__(self, kernel, ncpu):
        self.k = kernel
        self.ncpu = ncpu

    def __enter__(self):
        self.saved = (process.os, process.sys, process._reseed_random, process.cpu_count,
                      process.gen_log, process._task_id)
        k = self.k
        process.os = FakeModule(_os, fork=k.fork, wait=k.wait, WIFSIGNALED=w_ifsignaled,
                                WTERMSIG=w_termsig, WEXITSTATUS=w_exitstatus, WIFEXITED=w_ifexited)
        process.sys = FakeModule(_sys, exit=k.exit)
        self.reseeded = []
        process._reseed_random = lambda: self.reseeded.append(1)
        process.cpu_count = lambda: self.ncpu
        process.gen_log = NullLog()
        process._task_id = None
        return self

    def __exit__(self, *exc):
        (process.os, process.sys, process._reseed_random, process.cpu_count, process.gen_log,
         process._task_id) = self.saved
        return False


_STUBS = ["scripted kernel bound to the names os/sys inside tornado.process: fork() -> fresh pid (or 0 at the "
          "followed fork), wait() -> next (pid, status) of the symbolic exit history, sys.exit -> recorded",
          "os.WIFSIGNALED/WTERMSIG/WEXITSTATUS/WIFEXITED replaced by arithmetic models of the Linux encoding, "
          "validated against the real functions on all 65536 statuses at import",
          "statuses are those wait() can return without WUNTRACED/WCONTINUED: exited (low 7 bits 0) or killed by "
          "signal 1..126 (+ core flag); stopped/continued statuses excluded",
          "_reseed_random, cpu_count (-> 2) and gen_log replaced by recorders (no %-formatting of symbolic ints)",
          "module global _task_id reset to None per run; when the history is exhausted while workers are alive "
          "wait() raises a private exception (the supervisor would block)"]


def _status_ok(s):
    return 0 <= s <= 65535 and s % 128 != 127


def _model(n, budget, events, child_at):
    """Reference supervisor.  Returns (trace, end, id_of_followed_fork) with end in
    'child' | 'exit0' | 'fail' | 'blocked'."""
    trace = []
    live = []            # [pid, id] in start order
    nfork = 0
    for i in range(n):
        trace.append('F')
        if nfork == child_at:
            return trace, 'child', i
        live.append([100 + nfork, i])
        nfork += 1
    restarts = 0
    ev = list(events)
    while live:
        trace.append('W')
        if not ev:
            return trace, 'blocked', None
        who, status = ev.pop(0)
        ent = None
        for j in range(len(live)):
            if who == j:
                ent = live[j]
        if ent is None:
            reached("unknown_pid_ignored")
            continue
        live.remove(ent)
        normal = w_ifexited(status) and w_exitstatus(status) == 0
        if normal:
            continue
        if w_ifsignaled(status):
            reached("signal_restart")
        restarts += 1
        if restarts > budget:
            reached("budget_exceeded")
            return trace, 'fail', None
        trace.append('F')
        if nfork == child_at:
            reached("restarted_child_same_id")
            return trace, 'child', ent[1]
        live.append([100 + nfork, ent[1]])
        nfork += 1
    trace.append('X0')
    return trace, 'exit0', None


def _common_pre(np, mr, events, hmax):
    if not (0 <= np <= 3 and -1 <= mr <= P.MR and len(events) <= hmax):
        return False
    if (np == 0 or mr == -1) and len(events) > 1:
        return False          # the two default mappings (cpu_count(), None -> 100) only with shallow histories
    n = 2 if np == 0 else np
    for who, s in events:
        # who-th live worker; who == n is always an unknown pid (so is any who >= number still alive)
        if not (0 <= who <= n and _status_ok(s)):
            return False
    return True


def pre_sup(np: int, mr: int, events: List[Tuple[int, int]]) -> bool:
    return _common_pre(np, mr, events, P.H) and in_shard(np + 4 * (mr + 1))


def _run(np, mr, events, child_at):
    n = 2 if np == 0 else np
    budget = 100 if mr == -1 else mr
    k = Kernel(events, child_at)
    with Patched(k, 2) as px:
        ret = None
        end = None
        try:
            ret = process.fork_processes(np, None if mr == -1 else mr)
            end = 'child'
        except _Exit as e:
            end = 'exit%d' % e.code
        except _Blocked:
            end = 'blocked'
        except RuntimeError:
            end = 'fail'
        tid = process.task_id()
    want_trace, want_end, want_id = _model(n, budget, events, child_at)
    assert end == want_end, "supervisor ended with %r, the statement says %r (trace %r vs %r)" % (
        end, want_end, k.trace, want_trace)
    assert k.trace == want_trace, "fork/wait sequence %r differs from the model %r" % (k.trace, want_trace)
    if want_end == 'child':
        assert ret == want_id, "child of fork #%d got id %r, must be %r" % (child_at, ret, want_id)
        assert tid == want_id, "task_id() %r != %r in the child" % (tid, want_id)
        assert px.reseeded == [1]
    else:
        assert tid is None, "task_id() must stay None in the supervisor"
    if want_end == 'exit0':
        assert not k.live, "supervisor exited while workers are alive"
        if k.nfork > n:
            reached("clean_exit_after_restart")


@harness(
    pre=pre_sup,
    quick=dict(H=3, MR=2, timeout=240),
    thorough=dict(H=5, MR=3, timeout=1800),
    nshards=dict(quick=16, thorough=20),
    reach=["budget_exceeded", "unknown_pid_ignored", "signal_restart", "clean_exit_after_restart"],
    units=["process.fork_processes", "process.fork_processes.<locals>.start_child", "process.task_id"],
    stubs=_STUBS,
    outside=["real fork/wait/signals", "exit histories longer than H", "more than 3 workers",
             "restart budgets above MR (None -> 100 and cpu_count() only with histories <= 1)",
             "stopped/continued wait statuses", "Windows"],
)
def h_supervisor(np: int, mr: int, events: List[Tuple[int, int]]):
    """Supervisor side.  np: num_processes (0 -> cpu_count() stub = 2); mr: max_restarts (-1 -> None = 100);
    events: exit history (who-th live worker or unknown pid, 16-bit status)."""
    _run(np, mr, events, -1)


def pre_child(np: int, mr: int, events: List[Tuple[int, int]], child_at: int) -> bool:
    return _common_pre(np, mr, events, P.HC) and 0 <= child_at <= P.C and in_shard(child_at)


@harness(
    pre=pre_child,
    quick=dict(HC=2, C=4, MR=2, timeout=240),
    thorough=dict(HC=4, C=7, MR=3, timeout=1800),
    nshards=dict(quick=5, thorough=8),
    reach=["restarted_child_same_id", "initial_child_id"],
    units=["process.fork_processes", "process.fork_processes.<locals>.start_child", "process.task_id"],
    stubs=_STUBS,
    outside=["real fork/wait/signals", "exit histories longer than HC before the followed fork",
             "more than 3 workers"],
)
def h_child(np: int, mr: int, events: List[Tuple[int, int]], child_at: int):
    """Child side: fork call number `child_at` returns 0; the process must get the id the model assigned
    to that fork (initial forks: 0..n-1 in order; restart forks: the id of the worker that died)."""
    n = 2 if np == 0 else np
    if child_at < n:
        reached("initial_child_id")
    _run(np, mr, events, child_at)
