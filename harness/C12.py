"""C12 - IOStream writes deliver every byte once, in order, and resolve in order.

Real code driven:
  (a) tornado.iostream._StreamBuffer.append / peek / advance / __len__
  (b) tornado.iostream.BaseIOStream.write / _handle_write / _handle_events(WRITE) /
      _add_io_state / _maybe_add_error_listener (+ _StreamBuffer underneath) through
      FakeFdStream (harness/_iostream_rig.py) whose write_to_fd accepts a SYMBOLIC number of
      bytes per call or raises BlockingIOError.
Oracle: the property statement - transport log == concatenation of the written data, in order;
a write future is done only when all bytes up to its end were handed to the transport; futures
resolve in write order; after the transport accepts everything, everything is delivered and
every future is resolved; an over-limit write raises StreamBufferFullError and changes nothing.

Stated deviation: _StreamBuffer._large_buf_threshold (2048, a class attribute) is shadowed by
the instance attribute value P.THR (=2) so that both the coalescing path (<= threshold) and the
zero-copy memoryview path (> threshold) are reachable with tiny sizes; the code is unchanged.
h_write_real_threshold runs with the real 2048 (sizes 2047/2048/2049, symbolic partial sends).
"""
from typing import List, Optional, Tuple

from vp.api import P, harness, in_shard, reached
from vp.env import install

from tornado import iostream
from tornado.ioloop import IOLoop

from harness._iostream_rig import BA, FD, MV, FakeFdStream, Kernel, fire, registered

PAT = bytes((i * 7 + 1) % 251 for i in range(8192))     # every window of 2 bytes is position-unique


# ------------------------------------------------------------------------------------------
# (a) _StreamBuffer against a bytearray model

# op codes: 0..4 append bytes of size c | 5..8 append memoryview of size c-4 | 9..12 peek(c-8) |
# 13..16 advance(c-12) | 17,18 append bytearray of size 2 / 4 (thorough only: K=19)
def _decode(c):
    if c <= 4:
        return 0, c
    if c <= 8:
        return 1, c - 4
    if c <= 12:
        return 3, c - 8
    if c <= 16:
        return 4, c - 12
    return 2, (2 if c == 17 else 4)


def pre_buf(ops: List[int]) -> bool:
    if not len(ops) <= P.N:
        return False
    for c in ops:
        if not 0 <= c < P.K:
            return False
    return in_shard(ops[0] if len(ops) > 0 else 0)


@harness(
    pre=pre_buf,
    quick=dict(N=3, K=17, THR=2, timeout=100),
    thorough=dict(N=4, K=19, THR=2, timeout=1500),
    nshards=dict(quick=17, thorough=19),
    reach=["coalesced", "large_view", "advance_inside_large", "advance_across_chunks"],
    units=["iostream._StreamBuffer.append", "iostream._StreamBuffer.peek",
           "iostream._StreamBuffer.advance", "iostream._StreamBuffer.__len__"],
    stubs=["_large_buf_threshold shadowed by an instance attribute = 2 (real value 2048; code unchanged)",
           "appended content = successive windows of a fixed position-unique pattern (sizes symbolic)",
           "operations are symbolic codes decoded to (kind, size 0..4); after the history the buffer is drained "
           "with peek/advance like _handle_write does"],
    outside=["histories longer than N operations", "pieces longer than 4 bytes (2x the shadowed threshold)",
             "callers that mutate a bytearray/memoryview after appending it (zero-copy aliasing)",
             "peek(0)/advance(0)/advance(>len) which the API excludes by assert"],
)
def h_buf(ops: List[int]):
    """ops: symbolic op codes, see _decode"""
    sb = iostream._StreamBuffer()
    sb._large_buf_threshold = P.THR
    model = BA()
    off = 0

    def check_head():
        assert len(sb) == len(model), "len %r != model %r" % (len(sb), len(model))
        v = sb.peek(len(model) if len(model) > 0 else 1)
        got = bytes(v)
        v.release()
        assert len(got) <= len(model) and got == bytes(model[:len(got)]), \
            "peek shows %r, FIFO head is %r" % (got, bytes(model))
        assert len(got) > 0 or len(model) == 0, "peek returned nothing from a non-empty buffer"

    for c in ops:
        k, n = _decode(c)
        if k <= 2:
            piece = PAT[off:off + n]
            off += n
            if n > P.THR:
                reached("large_view")
            elif n > 0 and len(model) > 0:
                if sb._buffers and not sb._buffers[-1][0] and len(sb._buffers[-1][1]) < P.THR:
                    reached("coalesced")
            if k == 0:
                sb.append(piece)
            elif k == 1:
                sb.append(MV(piece))
            else:
                sb.append(BA(piece))
            model += piece
        elif k == 3:
            if n <= 0:
                continue
            v = sb.peek(n)
            got = bytes(v)
            v.release()
            assert len(got) <= n, "peek(%d) returned %d bytes" % (n, len(got))
            assert got == bytes(model[:len(got)]), "peek(%d) -> %r, FIFO head %r" % (n, got, bytes(model))
            assert len(got) > 0 or len(model) == 0, "peek returned nothing from a non-empty buffer"
        else:
            if not 0 < n <= len(model):
                continue
            if sb._buffers and sb._buffers[0][0] and n < len(sb._buffers[0][1]) - sb._first_pos:
                reached("advance_inside_large")
            if len(sb._buffers) > 1 and n > len(sb._buffers[0][1]) - sb._first_pos:
                reached("advance_across_chunks")
            sb.advance(n)
            del model[:n]
        check_head()
    # drain everything the way _handle_write does: content and order must be the model's
    out = BA()
    guard = 0
    while len(sb) > 0:
        v = sb.peek(len(sb))
        m = len(v)
        out += bytes(v)
        v.release()
        assert m > 0, "peek returned nothing from a non-empty buffer"
        sb.advance(m)
        guard += 1
        assert guard <= 3 * P.N + 3
    assert bytes(out) == bytes(model), "drained %r, expected %r" % (bytes(out), bytes(model))
    assert len(sb._buffers) == 0 or len(sb) == 0


# ------------------------------------------------------------------------------------------
# (b) BaseIOStream.write / _handle_write with symbolic partial sends

def _drive_writes(ops, wscript, mw, thr):
    """Shared body.  ops: (kind, size): 0 write(bytes) 1 write(memoryview) 2 WRITE-ready event."""
    with install() as env:
        k = Kernel(wscript=wscript)
        s = FakeFdStream(k, max_write_buffer_size=mw)
        if thr is not None:
            s._write_buffer._large_buf_threshold = thr
        expected = BA()       # concatenation of accepted writes
        ends = []                    # end offset of each accepted write
        futs = []
        order = []                   # resolution order observed through done-callbacks
        off = 0

        def check():
            sent = bytes(k.sent)
            assert sent == bytes(expected[:len(sent)]) and len(sent) <= len(expected), \
                "transport got %r, which is not a prefix of the written data %r" % (sent, bytes(expected))
            assert s._total_write_done_index == len(sent), \
                "sent-byte index %r != %d bytes handed to the transport" % (s._total_write_done_index, len(sent))
            assert s._total_write_index == len(expected), \
                "queued-byte index %r != %d bytes written (accounting must be in bytes)" % (
                    s._total_write_index, len(expected))
            prev_done = True
            for i, f in enumerate(futs):
                if f.done():
                    assert f.exception() is None, "write %d failed: %r" % (i, f.exception())
                    assert len(sent) >= ends[i], \
                        "write %d resolved after %d bytes sent, its data ends at %d" % (i, len(sent), ends[i])
                    assert prev_done, "write %d resolved before an earlier write" % i
                else:
                    prev_done = False
            assert order == sorted(order), "futures resolved out of write order: %r" % (order,)
            if len(sent) < len(expected):
                assert not s.closed()
                assert registered(env, IOLoop.WRITE), \
                    "unsent bytes remain but the stream is not waiting for writability"

        for kind, size in ops:
            if kind != 2:
                piece = PAT[off:off + size]
                pending = len(expected) - len(k.sent)
                over = mw is not None and size > 0 and pending + size > mw
                snap = (s._total_write_index, s._total_write_done_index, len(s._write_buffer),
                        len(s._write_futures), len(k.sent), k.wcalls, len(env.v.ready))
                if kind == 0:
                    data = piece
                elif kind == 1:
                    data = MV(piece)
                elif kind == 3:
                    data = MV(piece).cast("H")
                    assert len(data) * 2 == size
                else:
                    data = MV(piece).cast("I")
                    assert len(data) * 4 == size
                try:
                    f = s.write(data)
                    raised = None
                except iostream.StreamBufferFullError as e:
                    raised = e
                if kind >= 3 and size > 0:
                    items = size // (2 if kind == 3 else 4)
                    if over and not (pending + items > mw):
                        reached("multibyte_refused_items_would_fit")
                if over:
                    reached("refused")
                    if pending > 0:
                        reached("refused_with_pending")
                    assert raised is not None, \
                        "write of %d bytes with %d pending exceeds max_write_buffer_size=%d but was accepted" % (
                            size, pending, mw)
                    now = (s._total_write_index, s._total_write_done_index, len(s._write_buffer),
                           len(s._write_futures), len(k.sent), k.wcalls, len(env.v.ready))
                    assert now == snap, "refused write had side effects: %r -> %r" % (snap, now)
                else:
                    assert raised is None, "write within the limit was refused"
                    off += size
                    expected += piece
                    ends.append(len(expected))
                    idx = len(futs)
                    futs.append(f)
                    if kind >= 3 and len(k.sent) < len(expected):
                        reached("multibyte_partly_sent")
                    f.add_done_callback(lambda _f, idx=idx: order.append(idx))
            else:
                if not registered(env, IOLoop.WRITE):
                    continue
                if len(k.sent) < len(expected):
                    reached("resumed_after_partial")
                fire(env, IOLoop.WRITE)
            env.run_ready()
            check()
        # final drain: the transport now accepts everything it is offered
        k.wscript = []
        k.wi = 0
        guard = 0
        while registered(env, IOLoop.WRITE) and guard < 4:
            if len(k.sent) < len(expected):
                reached("drain_resumed")         # bytes were left pending by a blocked send
            fire(env, IOLoop.WRITE)
            guard += 1
        env.run_ready()
        check()
        assert bytes(k.sent) == bytes(expected), "bytes lost: sent %r of %r" % (bytes(k.sent), bytes(expected))
        for i, f in enumerate(futs):
            assert f.done() and f.exception() is None, "write %d never resolved" % i
        if len(futs) > 1:
            reached("several_resolved")
        assert order == list(range(len(futs))), "resolution order %r" % (order,)
        assert not s.closed()
        assert not env.v.exc_contexts, "exception escaped a callback: %r" % (env.v.exc_contexts,)


# data kinds of _drive_writes: 0 bytes | 1 memoryview (format "B") | 2 WRITE-ready event |
# 3 memoryview cast to "H" (itemsize 2) | 4 memoryview cast to "I" (itemsize 4); sizes are always BYTES
# (for kinds 3 / 4 len(view) = size / itemsize, so any accounting done in items instead of bytes shows).
#
# op codes: 0..3 write(bytes of size c) | 4 write(memoryview "B" of 3 bytes) | 5 WRITE-ready event |
# 6 write("I" view of 4 bytes = 1 item) | 7 write("H" view of 4 bytes = 2 items) | 8 write("H" view of 2 bytes) |
# 9 write(memoryview "B" of 1 byte)
def _wdecode(c):
    if c <= 3:
        return 0, c
    if c == 4:
        return 1, 3
    if c == 5:
        return 2, 0
    if c == 6:
        return 4, 4
    if c == 7:
        return 3, 4
    if c == 8:
        return 3, 2
    return 1, 1


def pre_write(ops: List[int], wscript: List[int]) -> bool:
    if not (len(ops) <= P.N and len(wscript) <= P.W):
        return False
    for c in ops:
        if not 0 <= c < P.K:
            return False
    for a in wscript:
        if not -1 <= a <= 3:
            return False
    return in_shard((ops[0] if len(ops) > 0 else 0) + P.K * (ops[1] if len(ops) > 1 else 0))


_W_UNITS = ["iostream.BaseIOStream.write", "iostream.BaseIOStream._handle_write",
            "iostream.BaseIOStream._handle_events", "iostream.BaseIOStream._add_io_state",
            "iostream._StreamBuffer.append", "iostream._StreamBuffer.peek", "iostream._StreamBuffer.advance"]
_W_STUBS = ["FakeFdStream scripted kernel (harness/_iostream_rig.py): write_to_fd accepts a symbolic prefix "
            "length per call (-1 = BlockingIOError, else min(a, len)) for the first W calls; afterwards it "
            "accepts everything",
            "VLoop/FakeAio virtual loop (vp/env.py); WRITE readiness is delivered by calling the registered handler",
            "written content = successive windows of a fixed position-unique pattern (sizes symbolic)"]


@harness(
    pre=pre_write,
    quick=dict(N=3, W=2, K=7, THR=2, timeout=100),
    thorough=dict(N=4, W=3, K=8, THR=2, timeout=1500),
    nshards=dict(quick=49, thorough=64),
    reach=["resumed_after_partial", "several_resolved", "multibyte_partly_sent"],
    units=_W_UNITS,
    stubs=_W_STUBS + ["_large_buf_threshold shadowed by an instance attribute = 2 (real value 2048; code unchanged)"],
    outside=["more than N operations / W scripted short sends", "writes longer than 4 bytes (see h_write_real_threshold)",
             "max_write_buffer_size (h_write_limit)", "transport errors during write (C13)",
             "non-contiguous memoryviews", "memoryview formats other than B / H / I", "SSL"],
)
def h_write(ops: List[int], wscript: List[int]):
    """Symbolic history of writes / writability events with symbolic partial sends, no buffer limit."""
    _drive_writes([_wdecode(c) for c in ops], wscript, None, P.THR)


def pre_limit(s1: int, a1: int, ops: List[int], mw: int) -> bool:
    if not (0 <= s1 <= 4 and -1 <= a1 <= 4 and 0 <= mw <= P.M and len(ops) <= P.N):
        return False
    for c in ops:
        if not 0 <= c <= 8:
            return False
    return in_shard(s1)


@harness(
    pre=pre_limit,
    quick=dict(N=1, M=6, THR=2, timeout=100),
    thorough=dict(N=3, M=8, THR=2, timeout=1500),
    nshards=dict(quick=5, thorough=5),
    reach=["refused", "refused_with_pending", "multibyte_refused_items_would_fit", "multibyte_partly_sent"],
    units=_W_UNITS,
    stubs=_W_STUBS + ["_large_buf_threshold shadowed by an instance attribute = 2",
                      "pre-state: one write of s1 bytes of which the transport accepts a1 (symbolic), then N "
                      "symbolic operations under a symbolic max_write_buffer_size 0..M"],
    outside=["max_write_buffer_size larger than M", "more than 1+N operations"],
)
def h_write_limit(s1: int, a1: int, ops: List[int], mw: int):
    """max_write_buffer_size: a write is refused iff pending+len > limit, and a refusal changes nothing."""
    _drive_writes([(0, s1)] + [_wdecode(c) for c in ops], [a1], mw, P.THR)


# real threshold: concrete sizes around 2048 chosen by symbolic index, symbolic partial sends
SIZES = [1, 2047, 2048, 2049]
SENDS = [-1, 1, 2047, 2048, 2049]


def _pick(pool, i):
    # branch on the symbolic index so that the chosen size is a concrete int on every path
    for j in range(len(pool) - 1):
        if i == j:
            return pool[j]
    return pool[-1]


def pre_real(ops: List[Tuple[int, int]], wscript: List[int]) -> bool:
    if not (len(ops) <= P.N and len(wscript) <= P.W):
        return False
    for kind, si in ops:
        if not (0 <= kind <= 1 and 0 <= si < len(SIZES)):
            return False
    for a in wscript:
        if not 0 <= a < len(SENDS):
            return False
    return in_shard((ops[0][1] if len(ops) > 0 else 0) + 4 * (ops[0][0] if len(ops) > 0 else 0))


@harness(
    pre=pre_real,
    quick=dict(N=2, W=1, timeout=100, reach_timeout=240),
    thorough=dict(N=3, W=2, timeout=1500, reach_timeout=400),
    nshards=dict(quick=8, thorough=8),
    reach=["drain_resumed"],
    units=_W_UNITS,
    stubs=_W_STUBS + ["the REAL _large_buf_threshold (2048); write sizes and per-call accepted lengths are chosen "
                      "by symbolic index from the pools SIZES / SENDS around the threshold; WRITE events only in the "
                      "final drain"],
    outside=["sizes other than the pool values", "max_write_buffer_size (h_write_limit)"],
)
def h_write_real_threshold(ops: List[Tuple[int, int]], wscript: List[int]):
    _drive_writes([(0 if kind == 0 else 1, _pick(SIZES, si)) for kind, si in ops],
                  [_pick(SENDS, a) for a in wscript], None, None)


TECHNIQUE = ("CrossHair symbolic execution of the real _StreamBuffer and BaseIOStream write path; operation "
             "histories, piece sizes, per-call accepted byte counts and the buffer limit are solver variables; "
             "reference oracle = bytearray FIFO / concatenation model")
ASSUMPTIONS = [
    "transport contract: write_to_fd reports the length of the prefix it accepted (0..len) or raises BlockingIOError",
    "_large_buf_threshold shadowed to 2 in h_buf/h_write (stated deviation); real value in h_write_real_threshold",
]
