"""C31 - Routing picks the first matching rule and reverse URLs route back.

Real code driven: tornado.web.Application(handlers)/add_handlers/find_handler/reverse_url,
tornado.routing.RuleRouter.find_handler/get_target_delegate, Rule, URLSpec, PathMatches.__init__/
match/reverse/_find_groups, HostMatches, _unquote_or_none, tornado.util.re_unescape, and the real
httputil.HTTPServerRequest constructor (host_name / path split).
Oracle: the statement - first rule (declaration order; host-specific groups before the wildcard
group, as documented for add_handlers) whose host pattern matches the WHOLE host name and whose path
pattern matches the WHOLE path (reference: re.fullmatch of the un-anchored pooled pattern), else the
404 ErrorHandler / None; captured groups are the percent-decoded matched text (independent decoder);
reverse_url(name, *args) routes back to the named rule with utf8(args).
"""
import re
from typing import List, Tuple

from vp.api import P, harness, in_shard, reached
from harness._misc2 import ref_unquote_to_bytes, DummyConnection, fix_crosshair_groupdict, fix_time

from tornado import httputil, routing, web
from tornado.routing import Rule, RuleRouter, PathMatches, HostMatches, URLSpec

fix_crosshair_groupdict()
fix_time(httputil, web)    # constant clock for HTTPServerRequest._start_time (stub, see _misc2.FixedTime)


class H0(web.RequestHandler):
    pass


class H1(web.RequestHandler):
    pass


class H2(web.RequestHandler):
    pass


HANDLERS = [H0, H1, H2]

# (pattern, named groups?, reversible per the reverse_url contract (every "(" is a capturing group and
#  the text between groups is a re.escape'd literal), sub-pattern of each group)
POOL = [
    (r"/a", False, True, []),
    (r"/a\.b", False, True, []),
    (r"/([^/]+)", False, True, [r"[^/]+"]),
    (r"/([^/]*)/([^/]*)", False, True, [r"[^/]*", r"[^/]*"]),
    (r"/(?P<x>[^/]+)/b", True, True, [r"[^/]+"]),
    (r"/a/?", False, True, []),
    (r"/(a|b)c", False, True, [r"a|b"]),
    (r"/a\+b", False, True, []),
    (r".*", False, True, []),
    (r"/a(?:b)?", False, False, []),
    (r"/([0-9]+)", False, True, [r"[0-9]+"]),
    (r"/a%b", False, True, []),                 # literal "%" (re.escape leaves "%" alone)
    (r"/a%b/([^/]+)", False, True, [r"[^/]+"]),  # literal "%" next to a group (DESIGN F9)
]
NP = len(POOL)
IDX = list(range(32))     # IDX[symbolic int] -> concrete int (used as cache key)

HOSTPATS = [r"a\.com", r".*", r"(.*\.)?a\.com", r"a.com"]
# (Host header value, host name the patterns are matched against: lower-cased, port removed)
HOSTS = [("a.com", "a.com"), ("A.com:80", "a.com"), ("b.a.com", "b.a.com"), ("axcom", "axcom"),
         ("xa.com:8", "xa.com"), ("a.com.evil", "a.com.evil")]

ALPHA_ESC = "/ab.+%25Ff1c"     # pattern alphabet + "%" + some hex digits (valid and invalid escapes)
ALPHA_GRP = "/ab%2F+c"         # smaller alphabet for patterns with groups (every group value is decoded)
ALPHA_LIT = "/ab."             # small alphabet: every group value gets realised by the decoder


def _request(uri: str, host: str) -> httputil.HTTPServerRequest:
    return httputil.HTTPServerRequest(
        start_line=httputil.RequestStartLine("GET", uri, "HTTP/1.1"),
        headers=httputil.HTTPHeaders({"Host": host}),
        connection=DummyConnection(),
    )


def _ref_match(pi: int, path: str):
    """Reference: None | (args list, kwargs dict) for pooled pattern pi on the WHOLE path."""
    pat, named = POOL[pi][0], POOL[pi][1]
    m = re.fullmatch(pat, path)
    if m is None:
        return None
    if named:
        return ([], {k: ref_unquote_to_bytes(v) for k, v in m.groupdict().items()})
    return ([ref_unquote_to_bytes(g) for g in m.groups()], {})


def _check_delegate(d, exp):
    if exp is None:
        assert d.handler_class is web.ErrorHandler and d.handler_kwargs == {"status_code": 404}, \
            "no rule matches: expected the 404 handler, got %r" % (d.handler_class,)
        return
    cls, (args, kwargs) = exp
    assert d.handler_class is cls, "dispatched to %r, first matching rule is %r" % (d.handler_class, cls)
    assert list(d.path_args) == args, "path args %r != url-unescaped groups %r" % (d.path_args, args)
    assert dict(d.path_kwargs) == kwargs, "path kwargs %r != %r" % (d.path_kwargs, kwargs)


# ------------------------------------------------------------------------------------------------
# (A) one rule, rich path alphabet (percent escapes): whole-path matching + group decoding + 404

_APP1 = [web.Application([(p[0], H0)]) for p in POOL]   # real constructor, concrete patterns, at import


def pre_one(pi: int, path: str) -> bool:
    if not (0 <= pi < NP and in_shard(pi) and 1 <= len(path) <= P.L):
        return False
    alpha = ALPHA_GRP if POOL[IDX[pi]][3] else ALPHA_ESC
    for c in path:
        if c not in alpha:
            return False
    return in_shard(pi)


@harness(
    pre=pre_one,
    quick=dict(L=4, timeout=200, reach_timeout=200),
    thorough=dict(L=5, timeout=1200, reach_timeout=400),
    nshards=NP,
    reach=["matched_decoded", "not_found", "trailing_garbage"],
    units=["web.Application.find_handler", "routing.RuleRouter.find_handler", "routing.PathMatches.match",
           "routing._unquote_or_none", "escape.url_unescape", "httputil.HTTPServerRequest.__init__"],
    stubs=["pattern by symbolic index from POOL (13); path over the alphabet %r (patterns with groups: %r)" % (ALPHA_ESC, ALPHA_GRP),
           "Application objects are built by the real constructor once per pooled pattern at import",
           "CrossHair's Match.groupdict model corrected (harness/_misc2.fix_crosshair_groupdict)",
           "reference = re.fullmatch of the pooled pattern + an independent percent-decoder"],
    outside=["arbitrary user regexes, top-level alternation", "paths longer than L", "raw non-ASCII path characters"],
)
def h_one_rule(pi: int, path: str):
    pi = IDX[pi]
    app = _APP1[pi]
    d = app.find_handler(_request(path, "a.com"))
    m = _ref_match(pi, path)
    if m is None:
        reached("not_found")
        if pi == 0 and path[:2] == "/a":
            reached("trailing_garbage")
        _check_delegate(d, None)
        return
    if m[0] and len(m[0][0]) + 1 < len(path) and POOL[pi][0] == r"/([^/]+)":
        reached("matched_decoded")
    _check_delegate(d, (H0, m))


# ------------------------------------------------------------------------------------------------
# (B) ordered rule lists: host-specific group (2 rules) before the wildcard group (1 rule)

WPOOL = [8, 2, 3]


def _mk_app2(p0, p1, wi):
    app = web.Application([(POOL[wi][0], H2)])
    app.add_handlers(HOSTPATS[0], [(POOL[p0][0], H0), (POOL[p1][0], H1)])
    return app


# real constructor + add_handlers on concrete pooled patterns, at import (deterministic across paths)
_APP2 = [[[_mk_app2(p0, p1, wi) for wi in WPOOL] for p1 in range(NP)] for p0 in range(NP)]


def pre_app(r0: int, r1: int, w: int, hsel: int, path: str) -> bool:
    if not (0 <= r0 < len(P.SP) and 0 <= r1 < len(P.SP) and in_shard(r0 + len(P.SP) * r1)
            and 0 <= w < P.NW and 0 <= hsel <= 1):
        return False
    if not (1 <= len(path) <= P.L):
        return False
    for c in path:
        if c not in ALPHA_LIT:
            return False
    return in_shard(r0 + len(P.SP) * r1)


@harness(
    pre=pre_app,
    quick=dict(L=3, SP=[0, 2, 5, 8], NW=2, timeout=150),
    thorough=dict(L=4, SP=[0, 1, 2, 3, 4, 5, 8], NW=3, timeout=900),
    nshards=dict(quick=16, thorough=49),
    reach=["second_rule", "wildcard_rule", "not_found", "first_of_two"],
    units=["web.Application.__init__", "web.Application.add_handlers", "web.Application.find_handler",
           "web._ApplicationRouter.process_rule/get_target_delegate", "routing.RuleRouter.find_handler",
           "routing.HostMatches.match", "routing.PathMatches.__init__/match", "routing._unquote_or_none"],
    stubs=["patterns by symbolic index from a sub-pool of POOL (quick 4, thorough 7); host rule a\\.com with "
           "Host: A.com:80 (match) or axcom (no match); path over %r" % ALPHA_LIT,
           "Application objects built by the real constructor/add_handlers once per configuration at import",
           "reference = re.fullmatch of the pooled pattern + independent percent-decoder"],
    outside=["more than 2+1 rules", "paths longer than L"],
)
def h_app_route(r0: int, r1: int, w: int, hsel: int, path: str):
    p0, p1, w = P.SP[r0], P.SP[r1], IDX[w]
    wi = WPOOL[w]
    app = _APP2[p0][p1][w]
    host = "A.com:80" if hsel == 0 else "axcom"
    d = app.find_handler(_request(path, host))
    exp = None
    if hsel == 0:
        m0 = _ref_match(p0, path)
        if m0 is not None:
            exp = (H0, m0)
            if _ref_match(p1, path) is not None and p0 != p1:
                reached("first_of_two")
        else:
            m1 = _ref_match(p1, path)
            if m1 is not None:
                exp = (H1, m1)
                reached("second_rule")
    if exp is None:
        m = _ref_match(wi, path)
        if m is not None:
            exp = (H2, m)
            reached("wildcard_rule")
        else:
            reached("not_found")
    _check_delegate(d, exp)


# ------------------------------------------------------------------------------------------------
# (C) plain RuleRouter: host rule with a nested router, then a path rule; callable targets


def T0(request, **kw):
    return None


def T1(request, **kw):
    return None


HP0, HP1 = 2, 5     # nested rule "/([^/]+)", top-level rule "/a/?"
_RR = [RuleRouter([Rule(HostMatches(hp), RuleRouter([Rule(PathMatches(POOL[HP0][0]), T0)])),
                   Rule(PathMatches(POOL[HP1][0]), T1)]) for hp in HOSTPATS]


def pre_host(hp: int, hi: int, path: str) -> bool:
    if not (0 <= hp < len(HOSTPATS) and in_shard(hp) and 0 <= hi < len(HOSTS) and 1 <= len(path) <= P.L):
        return False
    for c in path:
        if c not in "/ab":
            return False
    return in_shard(hp)


@harness(
    pre=pre_host,
    quick=dict(L=3, timeout=120),
    thorough=dict(L=4, timeout=900),
    nshards=len(HOSTPATS),
    reach=["host_and_path", "host_miss_falls_through", "host_hit_path_miss_falls_through", "none"],
    units=["routing.RuleRouter.__init__/add_rules/find_handler/get_target_delegate (nested Router, callable)",
           "routing.HostMatches.__init__/match", "routing.PathMatches.match",
           "httputil.HTTPServerRequest.__init__ (host_name: lower-case, port removed)"],
    stubs=["host pattern by symbolic index from HOSTPATS (4), Host header from HOSTS (6: exact, upper-case+port, "
           "sub-domain, dot-wildcard victim 'axcom', prefix victim 'xa.com:8', suffix victim 'a.com.evil'); path over '/ab'",
           "routers built by the real constructors at import; expected host names written by hand"],
    outside=["Host values outside the pool", "DefaultHostMatches / default_host"],
)
def h_host_router(hp: int, hi: int, path: str):
    hp, hi = IDX[hp], IDX[hi]
    host, host_name = HOSTS[hi]
    d = _RR[hp].find_handler(_request(path, host))
    exp = None
    hm = re.fullmatch(HOSTPATS[hp], host_name) is not None
    if hm:
        m = _ref_match(HP0, path)
        if m is not None:
            exp = (T0, m)
            reached("host_and_path")
    if exp is None:
        m = _ref_match(HP1, path)
        if m is not None:
            exp = (T1, m)
            if hm:
                reached("host_hit_path_miss_falls_through")
            else:
                reached("host_miss_falls_through")
    if exp is None:
        reached("none")
        assert d is None, "no rule matches: find_handler must return None (-> 404 default delegate)"
        return
    assert d is not None, "a rule matches (%r) but no delegate was returned" % (exp[0].__name__,)
    part = d.request_callback
    # (identity of plain functions is not stable under CrossHair's proxying of partial(): compare names)
    assert part.func.__name__ == exp[0].__name__, "dispatched to %r, first matching rule targets %r" % (part.func, exp[0])
    args, kwargs = exp[1]
    assert list(part.keywords.get("path_args", [])) == args
    assert dict(part.keywords.get("path_kwargs", {})) == kwargs


# ------------------------------------------------------------------------------------------------
# (D) reverse_url -> routes back to the same rule with the same arguments

ARGCH = ["a", "b", "5", " ", "%", "?", "#", "+", "/", ".", "é", "€", "c"]
_APPR = [web.Application([URLSpec(p[0], H0, name="n"), URLSpec(r".*", H2, name="fallback")]) for p in POOL]


NCH = len(ARGCH)


def _nvals(maxlen: int) -> int:
    return sum(NCH ** k for k in range(maxlen + 1))


def _decode_arg(n: int, maxlen: int) -> str:
    """n-th string over ARGCH in length-then-lexicographic order (n < _nvals(maxlen))."""
    for ln in range(maxlen + 1):
        if n < NCH ** ln:
            out = []
            for _ in range(ln):
                out.append(ARGCH[n % NCH])
                n = n // NCH
            return "".join(out)
        n -= NCH ** ln
    raise AssertionError("out of range")


def pre_rev(pi: int, a0: int, a1: int) -> bool:
    if not (0 <= pi < NP and in_shard(pi)):
        return False
    pi = IDX[pi]
    if not POOL[pi][2]:
        return False
    ng = len(POOL[pi][3])
    la = P.LA if ng <= 1 else P.LA2
    if not (0 <= a0 < (_nvals(la) if ng >= 1 else 1) and 0 <= a1 < (_nvals(la) if ng >= 2 else 1)):
        return False
    return in_shard(pi)


def classify_rev(pi, a0, a1):
    if "%" in re.sub(r"\([^)]*\)", "", POOL[pi][0]):
        return "reverse_literal_percent"
    return None


@harness(
    pre=pre_rev,
    quick=dict(LA=2, LA2=1, timeout=120),
    thorough=dict(LA=3, LA2=2, timeout=900),
    nshards=NP,
    reach=["escaped_arg", "two_args", "no_groups", "percent_literal_with_group", "named_group"],
    classify=classify_rev,
    units=["web.Application.reverse_url", "routing.ReversibleRuleRouter.reverse_url/process_rule",
           "routing.PathMatches.reverse/_find_groups", "util.re_unescape", "escape.url_escape",
           "web.Application.find_handler", "routing.PathMatches.match", "routing._unquote_or_none"],
    stubs=["rule by symbolic index from the reversible entries of POOL; argument characters by symbolic index from "
           "ARGCH (13 representatives: letters, digit, space, %, ?, #, +, /, ., 2- and 3-byte UTF-8) because "
           "urllib.parse.quote realises its input",
           "'representable in its groups' is read as: the argument text itself matches the group's sub-pattern "
           "(so '/' is not representable in [^/]+)"],
    outside=["arguments longer than LA (one group) / LA2 (two groups) characters", "non-str arguments"],
)
def h_reverse(pi: int, a0: int, a1: int):
    pi = IDX[pi]
    pat, named, _, subs = POOL[pi]
    args = []
    la = P.LA if len(subs) <= 1 else P.LA2
    if len(subs) >= 1:
        args.append(_decode_arg(a0, la))
    if len(subs) >= 2:
        args.append(_decode_arg(a1, la))
    for a, sp in zip(args, subs):
        if re.fullmatch(sp, a) is None:
            return          # not representable in the group
    if not subs:
        reached("no_groups")
    if len(subs) == 2:
        reached("two_args")
    if subs and "%" in pat.replace(subs[0], ""):
        reached("percent_literal_with_group")
    app = _APPR[pi]
    url = app.reverse_url("n", *args)
    assert isinstance(url, str)
    if args and args[0] and args[0] not in url:
        reached("escaped_arg")
    d = app.find_handler(_request(url, "a.com"))
    assert d.handler_class is H0, "reverse_url(%r) = %r does not route back to the rule %r" % (args, url, pat)
    want = [a.encode("utf-8") for a in args]
    if named:
        reached("named_group")
        assert list(d.path_kwargs.values()) == want and not d.path_args, \
            "%r routes back with kwargs %r, expected %r" % (url, d.path_kwargs, want)
    else:
        assert list(d.path_args) == want, "%r routes back with args %r, expected %r" % (url, d.path_args, want)
